//! Demonstration (real kernel) of the recorded C03 finding
//! `wake.lost-queue-space.blocking-poll`: futures waiting for submission queue
//! space are only woken when `io_uring_enter` *returns*. If the slot became free
//! without that (here: the future the wake-up was meant for was dropped), the
//! next `Ring::poll(None)` blocks for ever although a future is waiting for a
//! slot that is free.
//!
//! Copy to `tests/c03_blocking_poll.rs` in a10 and run
//! `cargo test --offline --test c03_blocking_poll -- --nocapture`.
//! It FAILS on the unmodified library ("still not woken").

use std::future::Future;
use std::os::fd::FromRawFd;
use std::pin::pin;
use std::sync::atomic::{AtomicUsize, Ordering};
use std::sync::Arc;
use std::task::{Context, Poll, Wake, Waker};
use std::time::Duration;

use a10::{AsyncFd, Ring};

struct Count(AtomicUsize);
impl Wake for Count {
    fn wake(self: Arc<Self>) {
        self.0.fetch_add(1, Ordering::SeqCst);
    }
}

#[test]
fn future_waiting_for_a_free_slot_is_woken() {
    let mut ring = Ring::config().with_submission_queue_size(1).build().unwrap();
    let sq = ring.sq();
    let mut fds = [0; 2];
    assert_eq!(unsafe { libc::pipe2(fds.as_mut_ptr(), libc::O_CLOEXEC) }, 0);
    let rfd = unsafe { AsyncFd::from_raw_fd(fds[0], sq.clone()) };

    let wakes: Vec<Arc<Count>> = (0..3).map(|_| Arc::new(Count(AtomicUsize::new(0)))).collect();
    let wakers: Vec<Waker> = wakes.iter().map(|c| Waker::from(c.clone())).collect();

    // A: a read that never completes, takes the only slot.
    let mut a = pin!(rfd.read(Vec::with_capacity(8)));
    assert!(a.as_mut().poll(&mut Context::from_waker(&wakers[0])).is_pending());
    // B and C: queue full, both wait for a slot.
    let mut b = Box::pin(rfd.read(Vec::with_capacity(8)));
    assert!(b.as_mut().poll(&mut Context::from_waker(&wakers[1])).is_pending());
    let mut c = pin!(rfd.read(Vec::with_capacity(8)));
    assert!(c.as_mut().poll(&mut Context::from_waker(&wakers[2])).is_pending());

    // Submits A: one slot free, one waiter (B) is woken.
    ring.poll(Some(Duration::ZERO)).unwrap();
    assert_eq!(wakes[1].0.load(Ordering::SeqCst), 1, "B woken");
    assert_eq!(wakes[2].0.load(Ordering::SeqCst), 0);
    // B is dropped without being polled again (select!, a timeout, ...).
    drop(b);

    // The slot is free, C waits for it. Polls with a timeout rescue C only
    // because io_uring_enter returns (ETIME); a blocking poll never returns.
    // Use a long timeout instead of None so that this test ends.
    let started = std::time::Instant::now();
    ring.poll(Some(Duration::from_secs(3))).unwrap();
    let woken_during_poll = wakes[2].0.load(Ordering::SeqCst);
    println!("poll returned after {:?}, C woken {woken_during_poll} time(s)", started.elapsed());
    assert!(
        started.elapsed() < Duration::from_secs(1),
        "Ring::poll slept {:?} (it would sleep for ever without a timeout) although C waits for a submission slot that is free: still not woken",
        started.elapsed()
    );
}
