#!/usr/bin/env python3
"""usage: tools_seeded_add.py <prop> <n> <id> <change> <needs> <detected_by> <demo_cmd> <verify_line>
Copies /tmp/seed/wt-<prop>/seeded/<n>/ to /verif/seeded/<id>/ and writes meta.json."""
import sys, shutil, json, os
prop,n,sid,change,needs,detected,demo_cmd,verify=sys.argv[1:9]
src=os.environ.get("SEEDBASE","/tmp/seed")+f"/wt-{prop}/seeded/{n}"; dst=f"/verif/seeded/{sid}"
os.makedirs('/verif/seeded',exist_ok=True)
if os.path.exists(dst): shutil.rmtree(dst)
shutil.copytree(src,dst)
meta={"id":sid,"property":prop,"change":change,"needs":needs,"detected_by":detected,
 "demonstration":demo_cmd,
 "what_i_ran":[
   "fresh scratch worktree of /repo HEAD (/tmp/sv): demonstration on the unmodified tree, then `git apply patch.diff`, demonstration again, then the full existing suite (`cargo test --workspace --no-fail-fast --offline`, private TMPDIR, demo removed)",
   verify,
   f"`git -C /repo apply /verif/seeded/{sid}/patch.diff && ./check {prop} quick` (then `git -C /repo checkout -- .`): exit 1, first class reported: {detected}"],
 "source":"independent sub-agent given only the property text and a scratch worktree"}
json.dump(meta,open(dst+"/meta.json","w"),indent=1)
print("added",sid)
