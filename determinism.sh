#!/bin/bash
# Determinism proof: every scenario, N run indices, executed twice - once spread over 16
# processes and once over 3 - and the per-run fingerprints (abstract trace hash, number of
# draws, hash of the complete event log, violation classes) are diffed.
# usage: ./determinism.sh [N per scenario, default 2000] [seed]
N=${1:-2000}; SEED=${2:-1}
H=${VERIF_HARNESS:-/verif/harness}
BIN=$H/target/${VERIF_PROFILE:-sim}/a10sim
cd $H && cargo build --offline --profile ${VERIF_PROFILE:-sim} >/dev/null 2>&1 || { echo "build failed"; exit 2; }
out=$(mktemp -d)
rc=0
for s in life cq blocked fd restart pool pool-cross teardown composite build inotify mt-sq mt-life mt-wake mt-pool mt-teardown; do
    n=$N; case $s in inotify) n=$((N/10));; mt-*) n=$((N/4));; esac
    for W in 16 3; do
        for ((w=0; w<W; w++)); do
            cnt=$(( (n - w + W - 1) / W ))
            $BIN hashes $s --seed $SEED --from $w --stride $W --count $cnt > $out/$s.$W.$w 2>/dev/null &
        done
        wait
        cat $out/$s.$W.* | sort -n > $out/$s.$W.all
    done
    if cmp -s $out/$s.16.all $out/$s.3.all; then
        echo "$s: $(wc -l < $out/$s.16.all) runs identical across 16 and 3 processes"
    else
        echo "$s: NON-DETERMINISTIC"; diff $out/$s.16.all $out/$s.3.all | head -5; rc=1
    fi
done
rm -rf $out
exit $rc
