#!/bin/bash
# Stub-vs-real-kernel conformance: the same raw io_uring scripts are run against this machine's
# kernel and against the simulated kernel, observations (return values, completions, flags) are
# compared. Exit 0 if they agree (or the real kernel has no io_uring), 1 otherwise.
cd /verif/harness || exit 2
CARGO_NET_OFFLINE=true cargo build --offline --profile sim >target/build-sim.log 2>&1 || { echo "build failed"; exit 2; }
exec ./target/sim/a10sim conformance
