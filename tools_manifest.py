#!/usr/bin/env python3
"""Regenerates /verif/MANIFEST.json from the table below (kept in one place so the
manifest stays valid while checks are added)."""
import json, subprocess

TECH = "deterministic simulation with fault injection: seeded random programs against an in-process simulated io_uring kernel, oracles on the recorded history, tape shrinking and exact replay"
NOTE = ("Trusted base: the simulated io_uring kernel (stub for Linux; semantics from the io_uring man pages and raw-syscall probes on Linux 6.18), "
        "the cfg(a10_verif) seams, the tracking allocator and the oracles in /verif/harness. Real code: all of a10, std Mutex/Arc/atomics, real threads. "
        "Sampling only: a clean batch covers the explored seeds; interleavings are explored at yield-point granularity.")

CLAIMED = {
 "C01": ("exploration", "Allocator monitor pins every region (and the operation state block) named by a consumed submission until the final completion is posted; freeing or moving a pinned block, or handing the kernel freed/stack memory, is reported. Random life-cycle, pool and teardown programs explore drop points x completion orders x outcomes x restarts x two-step completions."),
 "C02": ("exploration", "Every output of every future/iterator is compared with the results the simulated kernel scripted for that very submission (attributable lengths, byte patterns, descriptor numbers), in order, exactly once, never before the final completion was posted; small completion queues, overflow, batches split across Ring::poll calls and concurrent same-type operations make a neighbour's result type-check."),
 "C03": ("exploration", "Strict executor: a task is re-polled only if the waker of its most recent poll fired (wakers are replaced at drawn points). After Ring::poll drained the queue every ready task must have been woken; after faults stop every task (including those waiting for queue space on 1-2 entry queues) must finish within a bounded number of rounds."),
 "C05": ("exploration", "Completion queues of 1-64 entries with counters starting anywhere (incl. 2^32-k), overflow, SKIP padding, reserved user_data (0-3) completions; unpublished and released slots hold a poison entry whose user_data points into a PROT_NONE page (reading it faults and is reported); head must be monotone and never pass the tail; per-operation exactly-once/in-order from C02's oracle."),
 "C06": ("exploration", "At every drop the submissions made by the drop are inspected: at most one ASYNC_CANCEL, aimed at exactly that operation with the reserved user_data and skip-success, none for never-started/finished operations, exactly one when in flight with room in the queue; double frees and leaks of a10 allocations are detected by the allocator monitor after everything was dropped (both with the ring polled to quiescence and with the ring dropped first)."),
 "C07": ("exploration", "Descriptor ledger in the simulated kernel: every issued regular descriptor / direct slot must be closed exactly once by CLOSE{fd}, CLOSE{file_index}, close(2) fallback or FILES_UPDATE, never twice, never the wrong kind, never a standard stream; requests carry IOSQE_FIXED_FILE iff direct; at quiescence every descriptor is owned by an AsyncFd the application holds or closed. One recorded known finding (descriptor delivered to an abandoned operation)."),
 "C08": ("exploration", "After every step the pool is partitioned: ids in the kernel's window are pairwise distinct, no id is both offered and owned by a live ReadBuf (ownership from the buffer's base pointer), bytes of live ReadBufs equal their model copies, ring entries have the right address/length/id; at quiescence every id is offered again. The kernel acts at the yield points around the ring tail. One recorded known finding (buffer selected for an abandoned operation)."),
 "C09": ("exploration", "Completions are EINTR/ECANCELED with ~45% probability (also on the first step of zero-copy sends and at the end of multishot streams): every re-submission must be byte-identical (all 64 bytes, same regions), only follow an interrupted attempt, and the caller sees only the last attempt's result (attempt-specific data, junk written by aborted attempts)."),
 "C12": ("exploration", "Object graphs (ring, queue handle, descriptors, operations in every state, pool, buffers) are torn down in a drawn group order with the ring at any position; ring memory becomes PROT_NONE when a10 unmaps it (any later touch faults), mmap ledger must balance with exact lengths, ring descriptor closed, registrations gone, abandoned states reclaimed (allocator leak check). One recorded known finding (AsyncFd dropped after the Ring)."),
 "C15": ("exploration", "Every edit call on a kernel-filled ReadBuf (truncate, clear, remove with all range forms incl. out-of-bounds/overflowing, extend_from_slice, spare_capacity_mut+set_len, as_mut_slice, set_len) is mirrored on a Vec<u8> model with fixed capacity: same contents, same refusal/panic; neighbouring slots are canaried by the kernel (offered) or model-checked (owned); release must give back the original id."),
}
SCEN = {"C04":"mt-sq","C10":"composite","C11":"mt-wake","C17":"inotify","C18":"build"}
NA = {
 "C13":"pure argument-to-effect equivalence with POSIX calls; no schedule, clock, fault or history in it - its oracle is the real kernel, not a simulator (the stub's strict SQE decoder is only a harness sanity check)",
 "C14":"pure functions of buffer values and sizes (pointer/length/initialisation laws); nothing to schedule or fault",
 "C16":"pure conversion functions (socket address round trip); nothing to schedule or fault",
}

def main():
    import sys
    extra = json.load(open('/verif/manifest_extra.json')) if __import__('os').path.exists('/verif/manifest_extra.json') else {}
    claimed = dict(CLAIMED); claimed.update({k: tuple(v) for k, v in extra.get('claimed', {}).items()})
    checks = []
    for pid, (cat, text) in sorted(claimed.items()):
        checks.append({
          "property_id": pid,
          "quick_cmd": f"./check {pid} quick",
          "thorough_cmd": f"./check {pid} thorough",
          "evidence_file": f"/verif/evidence/{pid}.json",
          "replay_cmd_template": "./harness/target/sim/a10sim replay {path}",
          "engine": "a10sim",
          "level_claimed": {"category": cat, "text": text, "design_ref": f"DESIGN.md section 4, {pid}"},
          "level_note": NOTE,
          "technique": TECH,
        })
    na = [{"property_id": p, "reason": r} for p, r in NA.items()]
    for pid, scen in SCEN.items():
        if pid not in claimed:
            na.append({"property_id": pid, "reason": f"not claimed yet: the '{scen}' scenario family of DESIGN.md section 4 is still being built (the technique applies)"})
    commits = subprocess.run(["git","-C","/repo","log","--format=%h %s"],capture_output=True,text=True).stdout.splitlines()
    hooks = [c.split()[0] for c in commits if c.split(' ',1)[1].startswith('verif:')]
    m = {
     "version": 1,
     "setup_cmd": "cd /verif/harness && CARGO_NET_OFFLINE=true cargo build --offline --profile sim && CARGO_NET_OFFLINE=true cargo build --offline --profile simrel",
     "hooks": {
       "guard": "a10_verif",
       "enable": "RUSTFLAGS='--cfg a10_verif' (set in /verif/harness/.cargo/config.toml); the hooks are a function table (a10::verif::Hooks) installed by the simulator at start-up",
       "baseline_off_cmd": "cd /repo && cargo test --workspace --no-fail-fast --offline",
       "source_commits": hooks,
       "add_only": False
     },
     "engines": [{"name":"a10sim","path":"/verif/harness","serves_properties":sorted(claimed.keys()),"kind_free_text":"deterministic simulator written for this task: simulated io_uring kernel + choice tape + baton scheduler + tracking allocator + guard pages"}],
     "checks": checks,
     "not_applicable": sorted(na, key=lambda x: x["property_id"]),
     "notes": "Genuine defects found: see /verif/known_findings.json (open findings are reported as KNOWN-FINDING lines; fixed ones were repaired by fix: commits in /repo) and DESIGN.md section 10."
    }
    json.dump(m, open('/verif/MANIFEST.json','w'), indent=1)
    print("claimed:", sorted(claimed.keys()))

main()
