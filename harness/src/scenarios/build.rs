//! `build` (C18): ring construction is all-or-nothing and honours its
//! configuration. Configuration x fault point, cell by cell.

use crate::abi::*;
use crate::engine::{self, BASE, Engine};
use crate::kernel::{self, KCfg};
use crate::report::{self, tag, trace, violation};
use crate::stats::{self, C};
use crate::tape::{self, site};
use crate::{alloc, ev};

#[derive(Clone, Debug, Default)]
struct Cfg {
    sq: Option<u32>,
    cq: Option<u32>,
    max: bool,
    kthread: bool,
    cpu: Option<u32>,
    idle_ms: Option<u64>,
    single: bool,
    defer: bool,
    disabled: bool,
    attach: bool,
    direct: Option<u32>,
}

pub fn build() {
    // ------------------------------------------------ configuration draw
    let mut c = Cfg::default();
    c.sq = match tape::choose(site::BUILD, 16) {
        0 | 1 => None,
        2 | 3 => Some(1),
        4 | 5 => Some(2),
        6 => Some(3),
        7 | 8 => Some(8),
        9 => Some(33),
        10 => Some(0),
        11 => Some(4096),
        12 => Some(40_000),
        _ => Some(4),
    };
    c.cq = match tape::choose(site::BUILD, 16) {
        0..=5 => None,
        6 => Some(0),
        7 => Some(1),
        8 | 9 => Some(c.sq.unwrap_or(32).max(1)),
        10 => Some(100),
        11..=14 => Some(c.sq.unwrap_or(32).saturating_mul(4).clamp(1, 4096)),
        _ => Some(200_000),
    };
    c.max = tape::chance(site::BUILD, 1, 16);
    c.kthread = tape::chance(site::BUILD, 1, 4);
    // Mostly consistent combinations, sometimes ones the kernel refuses.
    let sloppy = tape::chance(site::BUILD, 1, 6);
    if tape::chance(site::BUILD, 1, 5) && (c.kthread || sloppy) {
        c.cpu = Some(tape::pick(site::BUILD, &[0u32, 3, 15, 20]));
    }
    if tape::chance(site::BUILD, 1, 5) {
        // Also more milliseconds than fit into the kernel's 32 bits: saturates.
        c.idle_ms = Some(tape::pick(site::BUILD, &[0u64, 10, 1000, u32::MAX as u64, u32::MAX as u64 + 2, 1 << 32, (1u64 << 32) * 1000]));
    }
    c.single = tape::chance(site::BUILD, 1, 3);
    c.defer = tape::chance(site::BUILD, 1, 4) && ((c.single && !c.kthread) || sloppy);
    c.disabled = tape::chance(site::BUILD, 1, 5);
    c.attach = tape::chance(site::BUILD, 1, 6);
    c.direct = match tape::choose(site::BUILD, 6) {
        0 | 1 | 2 => None,
        3 => Some(1),
        4 => Some(8),
        _ => Some(0),
    };

    // -------------------------------------------------- fault point draw
    // Value 0..=6: no fault.
    let fault = {
        let v = tape::choose(site::FAULT, 18);
        if v <= 6 { 0 } else { v - 4 }
    };
    let mut kcfg = KCfg {
        random_layout: tape::chance(site::GEOM, 1, 2),
        ..KCfg::default()
    };
    // The ring to attach to is built first, fault free.
    let other = if c.attach {
        kernel::with(|k| k.cfg = KCfg::default());
        alloc::a10(|| a10::Ring::config().with_submission_queue_size(2).build()).ok()
    } else {
        None
    };
    let base_mmaps = kernel::with(|k| (k.mmap_calls, k.madvise_calls));
    let fault_name = match fault {
        0..=2 => "none".to_string(),
        3 => {
            kcfg.setup_fail = Some(tape::pick(site::FAULT, &[libc::ENOMEM, libc::EPERM, libc::ENOSYS, libc::EMFILE]));
            "setup-errno".to_string()
        }
        4..=7 => {
            let bit = [FEAT_NODROP, FEAT_SUBMIT_STABLE, FEAT_RW_CUR_POS, FEAT_SQPOLL_NONFIXED][(fault - 4) as usize];
            kcfg.feature_missing = bit;
            format!("feature-missing-{bit:#x}")
        }
        8..=10 => {
            kcfg.mmap_fail = Some(base_mmaps.0 + (fault - 7));
            format!("mmap-{}", fault - 7)
        }
        11 | 12 => {
            let n = 1 + tape::choose(site::FAULT, 3);
            kcfg.madvise_fail = Some(base_mmaps.1 + n);
            format!("madvise-{n}")
        }
        _ => {
            kcfg.register_fail = Some(REGISTER_FILES2);
            "register-files".to_string()
        }
    };
    // A kernel that predates IORING_SETUP_NO_SQARRAY (a10 requires it).
    if fault <= 2 && tape::chance(site::FAULT, 1, 12) {
        kcfg.old_kernel = true;
    }
    kcfg.sq_start = if tape::chance(site::COUNTER, 1, 3) { 0u32.wrapping_sub(tape::choose(site::COUNTER, 5)) } else { 0 };
    kcfg.cq_start = if tape::chance(site::COUNTER, 1, 3) { 0u32.wrapping_sub(tape::choose(site::COUNTER, 5)) } else { 0 };
    kernel::with(|k| k.cfg = kcfg.clone());
    ev!("h build {c:?} fault={fault_name}");

    // ------------------------------------------------------------- build
    let rings_before = kernel::with(|k| k.rings.len());
    let result = alloc::a10(|| {
        let mut b = a10::Ring::config();
        if let Some(sq) = c.sq {
            b = b.with_submission_queue_size(sq);
        }
        if let Some(cq) = c.cq {
            b = b.with_completion_queue_size(cq);
        }
        if c.max {
            b = b.with_maximum_queue_size();
        }
        if c.kthread {
            b = b.with_kernel_thread();
        }
        if let Some(cpu) = c.cpu {
            b = b.with_cpu_affinity(cpu);
        }
        if let Some(ms) = c.idle_ms {
            b = b.with_idle_timeout(std::time::Duration::from_millis(ms));
        }
        if c.single {
            b = b.single_issuer();
        }
        if c.defer {
            b = b.defer_task_run();
        }
        if c.disabled {
            b = b.disable();
        }
        if let Some(n) = c.direct {
            b = b.with_direct_descriptors(n);
        }
        match &other {
            Some(o) => b.attach(o).build(),
            None => b.build(),
        }
    });

    // ----------------------------------------- what did the kernel see?
    let setup_seen = kernel::with(|k| k.setup_calls) > u32::from(other.is_some());
    let created = kernel::with(|k| k.rings.len()) > rings_before;
    if setup_seen && kcfg.setup_fail.is_none() {
        // Parameters must encode exactly the builder calls.
        let mut want = SETUP_SUBMIT_ALL | SETUP_NO_SQARRAY;
        want |= if c.kthread { SETUP_SQPOLL } else { SETUP_COOP_TASKRUN };
        if c.disabled {
            want |= SETUP_R_DISABLED;
        }
        if c.single {
            want |= SETUP_SINGLE_ISSUER;
        }
        if c.defer {
            want |= SETUP_DEFER_TASKRUN;
        }
        if c.cq.is_some() {
            want |= SETUP_CQSIZE;
        }
        if c.max {
            want |= SETUP_CLAMP;
        }
        if c.cpu.is_some() {
            want |= SETUP_SQ_AFF;
        }
        if c.attach && other.is_some() {
            want |= SETUP_ATTACH_WQ;
        }
        if created {
            let p = kernel::with(|k| k.rings[rings_before].params_seen);
            let want_sq = if c.max { u32::MAX } else { c.sq.unwrap_or(32) };
            let mut problems = Vec::new();
            if p.flags != want {
                problems.push(format!("flags {:#x}, the builder calls imply {want:#x}", p.flags));
            }
            if p.sq_entries != want_sq {
                problems.push(format!("sq_entries {} instead of {want_sq}", p.sq_entries));
            }
            if let Some(cq) = c.cq {
                if p.cq_entries != cq {
                    problems.push(format!("cq_entries {} instead of {cq}", p.cq_entries));
                }
            }
            if let Some(cpu) = c.cpu {
                if p.sq_thread_cpu != cpu {
                    problems.push(format!("sq_thread_cpu {} instead of {cpu}", p.sq_thread_cpu));
                }
            }
            if let Some(ms) = c.idle_ms {
                let want = ms.min(u64::from(u32::MAX)) as u32;
                if p.sq_thread_idle != want {
                    problems.push(format!("sq_thread_idle {} instead of {want} (requested {ms} ms)", p.sq_thread_idle));
                }
            }
            if c.attach && other.is_some() {
                let ofd = kernel::with(|k| k.rings[rings_before - 1].fd);
                if p.wq_fd != ofd as u32 {
                    problems.push("wq_fd is not the descriptor of the ring to attach to".to_string());
                }
            }
            for pr in problems {
                violation("build.wrong-params", format!("io_uring_setup parameters: {pr} ({c:?})"));
            }
        }
    }

    let outcome = match &result {
        Ok(_) => 0u32,
        Err(e) => 1 + e.raw_os_error().unwrap_or(999) as u32,
    };
    trace(&[
        tag::CFG,
        fault,
        outcome,
        u32::from(c.kthread),
        u32::from(c.single),
        u32::from(c.defer),
        u32::from(c.disabled),
        u32::from(c.attach),
        c.direct.map_or(99, |d| d),
        c.sq.map_or(99, |s| s.min(50)),
        c.cq.map_or(99, |s| s.min(50)),
        u32::from(c.max),
    ]);
    if fault > 2 {
        report::nontrivial();
    }

    match result {
        Err(e) => {
            stats::inc(C::probe_build_err);
            ev!("h build -> Err({e})");
            // The error is the one the kernel gave.
            let code = e.raw_os_error();
            if let Some(want) = kcfg.setup_fail {
                if code != Some(want) {
                    violation("build.leak-on-error", format!("setup failed with errno {want} but build returned {e}"));
                }
            }
            drop(e);
            // Nothing may be left behind.
            if created {
                kernel::with(|k| k.refresh_ring_fds());
                let (maps, closed, files) = kernel::with(|k| {
                    let r = &k.rings[rings_before];
                    (
                        [
                            (r.sq_mem.maps, r.sq_mem.unmaps),
                            (r.cq_mem.maps, r.cq_mem.unmaps),
                            (r.sqes_mem.maps, r.sqes_mem.unmaps),
                        ],
                        r.fd_closed,
                        r.files.is_some(),
                    )
                });
                let _ = files;
                if !closed {
                    violation(
                        "build.leak-on-error",
                        format!("build failed ({fault_name}) but the ring descriptor is still open"),
                    );
                }
                for (i, (m, u)) in maps.iter().enumerate() {
                    if m != u {
                        violation(
                            "build.leak-on-error",
                            format!("build failed ({fault_name}) but ring mapping {i} was mapped {m} and unmapped {u} times"),
                        );
                    }
                }
            }
            drop(other);
            for v in alloc::take_violations() {
                violation(v.class, v.detail);
            }
            let leaks = alloc::leaks();
            if !leaks.is_empty() && !report::has_violation() {
                violation(
                    "build.leak-on-error",
                    format!("build failed ({fault_name}) and left {} allocation(s) behind", leaks.len()),
                );
            }
        }
        Ok(mut ring) => {
            stats::inc(C::probe_build_ok);
            let (granted_sq, granted_cq, flags, files) = kernel::with(|k| {
                let r = &k.rings[rings_before];
                (r.sq_entries, r.cq_entries, r.flags, r.files.as_ref().map(Vec::len))
            });
            ev!("h build -> Ok (granted sq={granted_sq} cq={granted_cq})");
            if fault > 2 && kcfg.register_fail.is_none() || (kcfg.register_fail.is_some() && c.direct.is_some()) {
                violation(
                    "build.unusable-ring",
                    format!("build returned Ok although the kernel refused at {fault_name}"),
                );
            }
            if let Some(n) = c.direct {
                if files != Some(n as usize) {
                    violation(
                        "build.wrong-params",
                        format!("direct descriptor table of {n} requested, kernel has {files:?}"),
                    );
                }
            }
            if c.disabled {
                if let Err(e) = alloc::a10(|| ring.enable()) {
                    violation("build.unusable-ring", format!("Ring::enable failed: {e}"));
                }
            }
            // The ring must work with the *granted* sizes and the offsets the
            // kernel chose: fill the submission queue to the brim.
            if granted_sq <= 64 {
                let eng_prof = engine::Profile {
                    name: "build",
                    max_steps: 12,
                    max_tasks: 6,
                    p_ring_drop_early: 0,
                    pools: false,
                    faults: false,
                    ..BASE
                };
                let mut e = Engine::from_ring(ring, eng_prof, granted_sq, c.direct.is_some_and(|d| d >= 4));
                e.fill_sq_probe(granted_sq);
                if flags & SETUP_DEFER_TASKRUN == 0 || true {
                    let steps = 2 + tape::choose(site::STEP, 10);
                    for _ in 0..steps {
                        e.step();
                        if report::has_violation() {
                            break;
                        }
                    }
                }
                if !report::has_violation() {
                    e.quiesce();
                }
                let clean = !report::has_violation() && !e.stuck;
                e.end(false, clean);
            } else {
                alloc::a10(|| drop(ring));
            }
            drop(other);
            for v in alloc::take_violations() {
                violation(v.class, v.detail);
            }
            if !report::has_violation() {
                engine::check_leaks();
            }
        }
    }
}
