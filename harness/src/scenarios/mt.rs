//! Multi-threaded scenarios under the baton scheduler: `mt-sq` (C04),
//! `mt-life` (C03), `mt-wake` (C11), `mt-pool` (C08).

use std::sync::atomic::{AtomicBool, AtomicU32, Ordering};
use std::sync::{Arc, Mutex};
use std::task::{Context, Poll};
use std::time::Duration;


use crate::exec::*;
use crate::kernel::{self, During, KCfg};
use crate::ops::{self, Kind, World};
use crate::report::{self, tag, trace, violation};
use crate::stats::{self, C};
use crate::tape::{self, site};
use crate::{alloc, ev, sched};

struct SendPtr<T>(T);
unsafe impl<T> Send for SendPtr<T> {}

struct MtTask {
    id: u32,
    name: &'static str,
    /// A stream (multishot): yields `quota` items at most, then is dropped.
    is_iter: bool,
    quota: usize,
    matched: usize,
    last_pending: bool,
    task: Option<Box<dyn DynTask>>,
    expect: ops::Expect,
    wakers: TaskWakers,
    polled: bool,
    finished: bool,
    out: Option<Out>,
}

fn mt_recs(id: u32) -> Vec<kernel::OpRecord> {
    kernel::with(|k| {
        k.records
            .iter()
            .filter(|r| r.by_op == id && r.during == During::Poll)
            .cloned()
            .collect()
    })
}

/// C03, checked by a task thread between its polls: once every posted
/// completion has been processed by `Ring::poll` (the completion queue is
/// drained), a task of this thread whose last poll returned `Pending`, that
/// has a live request and a result waiting for it, must have had the waker of
/// that poll invoked.
/// The completion queue is drained and `t` (not being polled) has a result
/// waiting that is not an interruption to be restarted.
fn ready_and_drained(t: &MtTask) -> bool {
    let drained = kernel::with(|k| {
        let r = &k.rings[0];
        r.cq_ready() == 0 && r.overflow.is_empty() && r.deferred.is_empty() && !r.cq_mem.dead
    });
    if !drained {
        return false;
    }
    let unconsumed = kernel::with(|k| k.rings[0].published.iter().any(|p| p.by_op == t.id && p.during == During::Poll));
    if unconsumed {
        return false;
    }
    let recs = mt_recs(t.id);
    let (items, complete, last_done) = crate::engine::script_of(&recs, &t.expect);
    if t.is_iter {
        items.len() > t.matched || (complete && last_done)
    } else {
        recs.last().is_some_and(|r| r.done && r.cqes.last().is_some_and(|c| c.0 != -libc::EINTR && c.0 != -libc::ECANCELED))
    }
}

fn check_lost_wakeups(list: &[MtTask]) {
    let drained = kernel::with(|k| {
        let r = &k.rings[0];
        r.cq_ready() == 0 && r.overflow.is_empty() && r.deferred.is_empty() && !r.cq_mem.dead
    });
    if !drained || report::has_violation() {
        return;
    }
    for t in list {
        if t.finished || !t.polled || !t.last_pending || t.wakers.fired() {
            continue;
        }
        let unconsumed = kernel::with(|k| k.rings[0].published.iter().any(|p| p.by_op == t.id && p.during == During::Poll));
        if unconsumed {
            continue;
        }
        let recs = mt_recs(t.id);
        let (items, complete, last_done) = crate::engine::script_of(&recs, &t.expect);
        let ready = if t.is_iter {
            items.len() > t.matched || (complete && last_done)
        } else {
            recs.last().is_some_and(|r| r.done)
        };
        if ready {
            violation(
                "wake.lost-completion",
                format!(
                    "{} (op#{}) is ready (its completion was processed by Ring::poll on another thread) but the waker of its most recent poll was not invoked",
                    t.name, t.id
                ),
            );
        }
    }
}

fn draw_counter(entries: u32) -> u32 {
    let k = tape::choose(site::COUNTER, 2 * entries + 1);
    match tape::choose(site::COUNTER, 4) {
        0 => 0,
        1 => (1u32 << 31).wrapping_sub(k),
        2 => 0u32.wrapping_sub(k),
        _ => 0u32.wrapping_sub(1 + tape::choose(site::COUNTER, 3)),
    }
}

/// Shared body of `mt-sq` and `mt-life`.
fn mt_ops(kinds: &'static [Kind], sq_sizes: &[u32], faults: bool) {
    let sq = tape::pick(site::GEOM, sq_sizes);
    let cq = sq * tape::pick(site::GEOM, &[4u32, 2, 8]);
    let sqpoll = tape::chance(site::GEOM, 1, 5);
    let single_issuer = !sqpoll && tape::chance(site::GEOM, 1, 4);
    let defer_taskrun = single_issuer && tape::chance(site::GEOM, 1, 2);
    let nthreads = 2 + tape::choose(site::GEOM, 3) as usize;
    let mut kcfg = if faults { crate::engine::draw_kcfg(true) } else { KCfg::default() };
    kcfg.p_intr = 0;
    kcfg.sq_start = draw_counter(sq);
    kcfg.cq_start = draw_counter(cq);
    kcfg.random_layout = tape::chance(site::GEOM, 1, 3);
    kcfg.p_yield_act = tape::pick(site::CFG, &[100u32, 300, 30]);
    kcfg.p_complete_in_wait = 60;
    kcfg.sqpoll_sleepy = tape::chance(site::CFG, 1, 2);
    kernel::with(|k| k.cfg = kcfg);
    trace(&[tag::CFG, sq, cq, u32::from(sqpoll) + 2 * u32::from(single_issuer) + 4 * u32::from(defer_taskrun), nthreads as u32]);
    ev!("h mt config sq={sq} cq={cq} sqpoll={sqpoll} single_issuer={single_issuer} threads={nthreads}");

    let ring = alloc::a10(|| {
        let mut c = a10::Ring::config()
            .with_submission_queue_size(sq)
            .with_completion_queue_size(cq);
        if sqpoll {
            c = c.with_kernel_thread();
        }
        if single_issuer {
            // Other threads still share the submission queue; only the ring's
            // thread enters the kernel.
            c = c.single_issuer();
        }
        if defer_taskrun {
            // Completions become visible only when the ring's thread asks for
            // events.
            c = c.defer_task_run();
        }
        c.build()
    });
    let Ok(ring) = ring else {
        report::harness_error("ring build failed".to_string());
        return;
    };
    let sqh = alloc::a10(|| ring.sq());
    let mut w = World {
        ring: None,
        sq: sqh,
        fds: Vec::new(),
        pools: Vec::new(),
        direct_enabled: false,
        other: None,
        signals: Vec::new(),
    };
    let fd = w.new_fd();
    // A pool for the pool-backed kinds: its buffers are released by the task
    // threads while the ring thread processes completions.
    let pool = if kinds.iter().any(|k| k.needs_pool()) {
        let size = tape::pick(site::GEOM, &[4u16, 2, 8]);
        match alloc::a10(|| a10::io::ReadBufPool::new(w.sq.clone(), size, 16)) {
            Ok(p) => {
                w.pools.push(p);
                Some(0)
            }
            Err(e) => {
                report::harness_error(format!("pool: {e}"));
                return;
            }
        }
    } else {
        None
    };

    // Build the per-thread task lists.
    let mut next_id = 0u32;
    let mut lists: Vec<Vec<MtTask>> = Vec::new();
    for _ in 0..nthreads {
        let n = 2 + tape::choose(site::GEOM, 5);
        let mut list = Vec::new();
        for _ in 0..n {
            let kind = kinds[tape::choose(site::OPKIND, kinds.len() as u32) as usize];
            let id = next_id;
            next_id += 1;
            let f = if kind.needs_fd() { Some(fd) } else { None };
            let made = ops::make(&mut w, kind, f, if kind.needs_pool() { pool } else { None }, (id as u8).wrapping_mul(7).wrapping_add(3));
            stats::inc(C::total_ops_created);
            list.push(MtTask {
                id,
                name: made.name,
                is_iter: kind.is_iter(),
                quota: 1 + tape::choose(site::GEOM, 4) as usize,
                matched: 0,
                last_pending: false,
                task: Some(made.task),
                expect: made.expect,
                wakers: TaskWakers::new(id),
                polled: false,
                finished: false,
                out: None,
            });
        }
        lists.push(list);
    }
    let total = next_id;
    let done = Arc::new(AtomicU32::new(0));
    let gave_up = Arc::new(AtomicBool::new(false));
    let results: Arc<Mutex<Vec<(u32, &'static str, Option<Out>, ops::Expect, bool, bool)>>> = Arc::new(Mutex::new(Vec::new()));

    let mut bodies: Vec<Box<dyn FnOnce() + Send>> = Vec::new();
    for list in lists {
        let done = done.clone();
        let gave_up = gave_up.clone();
        let results = results.clone();
        let list = SendPtr(list);
        bodies.push(Box::new(move || {
            let mut list = list;
            let list = &mut list.0;
            let mut spins = 0u32;
            loop {
                let mut pending = 0;
                for t in list.iter_mut() {
                    if t.finished {
                        continue;
                    }
                    pending += 1;
                    // Polled when woken - and now and then without (join/select
                    // style combinators poll all their futures).
                    if t.polled && !t.wakers.fired() && !tape::chance(site::STEP, 1, 12) {
                        continue;
                    }
                    t.wakers.clear();
                    let wk = t.wakers.waker();
                    let mut cx = Context::from_waker(&wk);
                    let mut produced = Vec::new();
                    let old = kernel::set_cur(t.id, During::Poll);
                    // C05: with the completion queue drained, a result that is
                    // waiting for this task must come out of this poll.
                    let must_resolve = t.polled && t.last_pending && ready_and_drained(t);
                    let r = t.task.as_mut().unwrap().poll(&mut cx, &mut produced);
                    if must_resolve && r.is_pending() {
                        violation(
                            "cq.lost",
                            format!(
                                "{} (op#{}) returned Pending although the kernel published its completion and the ring thread has consumed the whole completion queue: the completion never reached the operation",
                                t.name, t.id
                            ),
                        );
                    }
                    kernel::set_cur(old.0, old.1);
                    t.polled = true;
                    for p in produced {
                        ops::drop_produced(p);
                    }
                    match r {
                        Poll::Ready(Some(o)) if t.is_iter => {
                            ev!("h t{} op#{} -> item {o:?}", sched::tid(), t.id);
                            t.last_pending = false;
                            // Each item is the next entry of the kernel's script.
                            let recs = mt_recs(t.id);
                            let (items, _, _) = crate::engine::script_of(&recs, &t.expect);
                            match items.get(t.matched) {
                                Some(want) if *want == o => {}
                                Some(want) => violation(
                                    "res.wrong",
                                    format!("{} (op#{}): item {} is {o:?}, kernel scripted {want:?}", t.name, t.id, t.matched),
                                ),
                                None => violation(
                                    "res.made-up",
                                    format!("{} (op#{}) yielded {o:?} although the kernel posted only {} completion(s) for it", t.name, t.id, items.len()),
                                ),
                            }
                            t.matched += 1;
                            t.polled = false; // a consumer polls a stream again right away
                            if t.matched >= t.quota {
                                ev!("h t{} drops stream op#{}", sched::tid(), t.id);
                                let task = t.task.take();
                                alloc::a10(|| drop(task));
                                t.finished = true;
                                done.fetch_add(1, Ordering::AcqRel);
                            }
                        }
                        Poll::Ready(o) => {
                            ev!("h t{} op#{} -> {o:?}", sched::tid(), t.id);
                            if t.is_iter {
                                let (_, complete, _) = crate::engine::script_of(&mt_recs(t.id), &t.expect);
                                if !complete {
                                    violation(
                                        "res.early",
                                        format!("{} (op#{}) ended its stream although the kernel posted no final completion", t.name, t.id),
                                    );
                                }
                            }
                            t.last_pending = false;
                            t.finished = true;
                            t.out = o;
                            done.fetch_add(1, Ordering::AcqRel);
                        }
                        Poll::Pending => {
                            ev!("h t{} op#{} -> Pending", sched::tid(), t.id);
                            t.last_pending = true;
                        }
                    }
                    sched::step_boundary();
                }
                check_lost_wakeups(list);
                if pending == 0 {
                    break;
                }
                spins += 1;
                if spins > 20_000 {
                    gave_up.store(true, Ordering::Release);
                    break;
                }
                // Nothing is runnable here until a waker fires: let others run.
                if !list.iter().any(|t| !t.finished && (!t.polled || t.wakers.fired())) && !sched::idle() {
                    // Nothing can ever wake these tasks.
                    gave_up.store(true, Ordering::Release);
                    break;
                }
            }
            // Never hold a harness lock across a call into a10 (it may yield).
            let mut mine = Vec::new();
            check_lost_wakeups(list);
            for t in list.drain(..) {
                let MtTask { id, name, task, expect, out, is_iter, finished, .. } = t;
                alloc::a10(|| drop(task));
                mine.push((id, name, out, expect, is_iter, finished));
            }
            results.lock().unwrap_or_else(|e| e.into_inner()).extend(mine);
        }));
    }
    // The ring thread.
    {
        let done = done.clone();
        let gave_up = gave_up.clone();
        let ring = SendPtr(ring);
        bodies.push(Box::new(move || {
            let mut ring = ring;
            let ring_ref = &mut ring.0;
            kernel::with(|k| k.rings[0].submitter = Some(sched::tid()));
            let mut rounds = 0;
            while done.load(Ordering::Acquire) < total && !gave_up.load(Ordering::Acquire) && rounds < 6000 {
                stats::inc(C::total_ring_polls);
                let r = alloc::a10(|| ring_ref.poll(Some(Duration::from_millis(1))));
                if let Err(e) = r {
                    let code = e.raw_os_error().unwrap_or(0);
                    if code != libc::EBUSY && code != libc::EINTR && code != libc::EAGAIN {
                        violation("panic", format!("Ring::poll failed: {e}"));
                    }
                }
                rounds += 1;
                sched::step_boundary();
            }
            kernel::with(|k| {
                k.in_ring_drop = true;
                k.ring_drop_seen = true;
            });
            alloc::a10(|| drop(ring));
            kernel::with(|k| k.in_ring_drop = false);
        }));
    }
    stats::inc(C::probe_concurrent_submit);
    sched::run_threads(bodies, tape::pick(site::CFG, &[300u32, 100, 600]), 400_000);

    // ------------------------------------------------------------- oracle
    let res = std::mem::take(&mut *results.lock().unwrap_or_else(|e| e.into_inner()));
    for (id, name, out, expect, is_iter, finished) in &res {
        let recs = mt_recs(*id);
        if *is_iter && *finished {
            // Items were compared as they were yielded.
            continue;
        }
        match out {
            None => {
                if !report::has_violation() {
                    let class = if recs.is_empty() { "wake.lost-queue-space" } else if recs.last().is_some_and(|r| r.done) { "wake.lost-completion" } else { "sq.lost" };
                    violation(
                        class,
                        format!(
                            "{name} (op#{id}) never finished: {} submission(s) reached the kernel, {}",
                            recs.len(),
                            if recs.last().is_some_and(|r| r.done) { "its completion was posted" } else { "no completion was posted" }
                        ),
                    );
                }
            }
            Some(got) => {
                if recs.len() != 1 {
                    violation(
                        "sq.duplicate",
                        format!("{name} (op#{id}) finished but the kernel consumed {} submissions for it", recs.len()),
                    );
                } else if recs[0].cqes.is_empty() {
                    violation(
                        "res.made-up",
                        format!("{name} (op#{id}) resolved with {got:?} although the kernel posted no completion for it"),
                    );
                } else {
                    let want = expect(&recs[0], 0);
                    if *got != want && !ops::is_composite(Kind::SyncAll) {
                        violation(
                            "res.wrong",
                            format!("{name} (op#{id}): got {got:?}, kernel scripted {want:?}"),
                        );
                    }
                }
            }
        }
    }
    drop(res);
    let World { sq, fds, pools, .. } = w;
    alloc::a10(|| {
        drop(pools);
        drop(fds);
        drop(sq);
    });
    for v in alloc::take_violations() {
        violation(v.class, v.detail);
    }
    kernel::with(|k| k.check_lost_submissions(0));
    // Everything is gone: nothing a10 allocated (operation states, buffers,
    // queues) may be left, whichever thread dropped it.
    if !report::has_violation() {
        crate::engine::check_leaks();
    }
}

const SQ_KINDS: &[Kind] = &[Kind::Truncate, Kind::Advise, Kind::WriteVec, Kind::SyncAll, Kind::Allocate];
const LIFE_KINDS: &[Kind] = &[
    Kind::Truncate,
    Kind::ReadVec,
    Kind::WriteVec,
    Kind::SyncAll,
    Kind::Recv,
    Kind::Send,
    Kind::SendZc,
    Kind::Metadata,
    Kind::Open,
    Kind::Waitid,
    Kind::MultishotAccept,
    Kind::MultishotAccept,
    Kind::ReadPool,
    Kind::MultishotRecv,
];

pub fn mt_sq() {
    mt_ops(SQ_KINDS, &[1, 2, 4], false);
}

pub fn mt_life() {
    mt_ops(LIFE_KINDS, &[1, 2, 4], true);
}

// --------------------------------------------------------------- mt-wake

fn stamp() -> u64 {
    kernel::stamp()
}

#[derive(Clone, Debug)]
struct PollRec {
    start: u64,
    end: u64,
    timeout: Option<Duration>,
    /// Ended by the (long) timeout or because nothing could ever wake it.
    expired: bool,
    /// The kernel refused the call (ring not enabled): it returned at once,
    /// and it may have consumed a wake-up on its way.
    refused: bool,
}

#[derive(Clone, Debug)]
struct WakeRec {
    start: u64,
    end: u64,
}

pub fn mt_wake() {
    let kind = tape::choose(site::GEOM, 4); // 0,1: default, 2: sqpoll, 3: single issuer
    let sq = tape::pick(site::GEOM, &[2u32, 1, 4, 8]);
    let defer = kind == 3 && tape::chance(site::GEOM, 1, 2);
    let mut kcfg = KCfg {
        p_yield_act: tape::pick(site::CFG, &[0u32, 100, 300]),
        sqpoll_sleepy: tape::chance(site::CFG, 1, 2),
        // In some runs I/O completes as well, so polls find completions
        // without blocking and wake() can land while they are handed out.
        p_complete_in_wait: tape::pick(site::CFG, &[0u32, 0, 50]),
        sq_start: draw_counter(sq),
        cq_start: draw_counter(2 * sq),
        ..KCfg::default()
    };
    kcfg.random_layout = tape::chance(site::GEOM, 1, 3);
    kernel::with(|k| k.cfg = kcfg);
    // Some rings start disabled: the poller enables its ring first (possibly
    // after a poll that the kernel refuses, possibly after somebody's wake()).
    let disabled = tape::chance(site::GEOM, 1, 5);
    let failed_poll_first = disabled && tape::chance(site::GEOM, 1, 2);
    trace(&[tag::CFG, kind, sq, u32::from(defer) + 2 * u32::from(disabled) + 4 * u32::from(failed_poll_first)]);
    ev!("h mt-wake kind={kind} sq={sq} defer={defer} disabled={disabled}");
    let ring = alloc::a10(|| {
        let mut c = a10::Ring::config().with_submission_queue_size(sq);
        if disabled {
            c = c.disable();
        }
        match kind {
            2 => c = c.with_kernel_thread(),
            3 => {
                c = c.single_issuer();
                if defer {
                    c = c.defer_task_run();
                }
            }
            _ => {}
        }
        c.build()
    });
    let Ok(ring) = ring else {
        report::harness_error("ring build failed".to_string());
        return;
    };
    let sqh = alloc::a10(|| ring.sq());
    // Optionally keep the submission queue busy/full with never completing ops.
    let mut w = World {
        ring: None,
        sq: sqh.clone(),
        fds: Vec::new(),
        pools: Vec::new(),
        direct_enabled: false,
        other: None,
        signals: Vec::new(),
    };
    let fd = w.new_fd();
    let nfill = tape::choose(site::GEOM, sq + 1);
    let mut fillers: Vec<Box<dyn DynTask>> = Vec::new();
    for i in 0..nfill {
        let made = ops::make(&mut w, Kind::Recv, Some(fd), None, i as u8);
        let mut t = made.task;
        let wk = std::task::Waker::noop();
        let mut cx = Context::from_waker(wk);
        let mut produced = Vec::new();
        let _ = t.poll(&mut cx, &mut produced);
        fillers.push(t);
    }

    let npolls = 1 + tape::choose(site::GEOM, 4);
    let nwakers = 1 + tape::choose(site::GEOM, 3) as usize;
    let polls: Arc<Mutex<Vec<PollRec>>> = Arc::new(Mutex::new(Vec::new()));
    let wakes: Arc<Mutex<Vec<WakeRec>>> = Arc::new(Mutex::new(Vec::new()));
    let ring_dropped = Arc::new(AtomicBool::new(false));
    let mut bodies: Vec<Box<dyn FnOnce() + Send>> = Vec::new();
    {
        let polls = polls.clone();
        let ring = SendPtr(ring);
        let ring_dropped = ring_dropped.clone();
        let timeouts: Vec<Option<Duration>> = (0..npolls)
            .map(|_| if tape::choose(site::GEOM, 2) == 0 { Some(Duration::from_secs(10)) } else { None })
            .collect();
        bodies.push(Box::new(move || {
            let mut ring = ring;
            let r = &mut ring.0;
            // The ring belongs to this thread (as if it had created it).
            kernel::with(|k| k.rings[0].submitter = Some(sched::tid()));
            if disabled {
                if failed_poll_first {
                    // Refused (EBADFD): the ring is not enabled yet. It is a
                    // poll all the same: it returns at once and may consume
                    // a wake-up.
                    let start = stamp();
                    let res = alloc::a10(|| r.poll(Some(Duration::ZERO)));
                    let end = stamp();
                    ev!("h poller: Ring::poll on the disabled ring -> {res:?}");
                    polls.lock().unwrap_or_else(|e| e.into_inner()).push(PollRec {
                        start,
                        end,
                        timeout: Some(Duration::ZERO),
                        expired: false,
                        refused: true,
                    });
                    sched::step_boundary();
                }
                sched::step_boundary();
                if let Err(e) = alloc::a10(|| r.enable()) {
                    violation("panic", format!("Ring::enable failed: {e}"));
                }
                ev!("h poller: ring enabled");
                sched::step_boundary();
            }
            for t in timeouts {
                let before = kernel::with(|k| (k.clock_ns, k.stuck_waits));
                let start = stamp();
                ev!("h poller: Ring::poll({t:?}) starts");
                let res = alloc::a10(|| r.poll(t));
                let end = stamp();
                let after = kernel::with(|k| (k.clock_ns, k.stuck_waits));
                // Did this poll sleep until its own timeout, or block forever?
                // (a10 shortens the timeout to zero when it was awoken.)
                let expired = after.1 != before.1
                    || t.is_some_and(|d| u128::from(after.0 - before.0) >= d.as_nanos());
                ev!("h poller: Ring::poll -> {res:?}");
                polls.lock().unwrap_or_else(|e| e.into_inner()).push(PollRec {
                    start,
                    end,
                    timeout: t,
                    expired,
                    refused: false,
                });
                sched::step_boundary();
            }
            alloc::a10(|| drop(ring));
            ring_dropped.store(true, Ordering::Release);
            sched::progress();
            ev!("h poller: ring dropped");
        }));
    }
    for wi in 0..nwakers {
        let wakes = wakes.clone();
        let sqh = sqh.clone();
        let n = 1 + tape::choose(site::GEOM, 3);
        let ring_dropped = ring_dropped.clone();
        let late = tape::chance(site::GEOM, 1, 4);
        bodies.push(Box::new(move || {
            for _ in 0..n {
                sched::step_boundary();
                let start = stamp();
                if ring_dropped.load(Ordering::Acquire) {
                    stats::inc(C::probe_wake_after_ring_drop);
                }
                ev!("h waker{wi}: wake() starts");
                let old = kernel::set_cur(1000 + wi as u32, During::Other);
                alloc::a10(|| sqh.wake());
                kernel::set_cur(old.0, old.1);
                let end = stamp();
                ev!("h waker{wi}: wake() returned");
                wakes.lock().unwrap_or_else(|e| e.into_inner()).push(WakeRec { start, end });
            }
            if late {
                // Keep the handle until the ring is gone, then wake once more.
                let mut spins = 0;
                while !ring_dropped.load(Ordering::Acquire) && spins < 20_000 {
                    if !sched::idle() {
                        break;
                    }
                    spins += 1;
                }
                if ring_dropped.load(Ordering::Acquire) {
                    stats::inc(C::probe_wake_after_ring_drop);
                    ev!("h waker{wi}: wake() after the ring was dropped");
                    alloc::a10(|| sqh.wake());
                }
            }
            alloc::a10(|| drop(sqh));
        }));
    }
    // A thread that starts operations while all this happens: the submission
    // queue may be full of unsubmitted entries when wake() wants to queue its
    // message, and their completions make polls return without blocking.
    let late: Arc<Mutex<Vec<SendPtr<Box<dyn DynTask>>>>> = Arc::new(Mutex::new(Vec::new()));
    if kind != 3 && tape::chance(site::GEOM, 2, 3) {
        let n = 1 + tape::choose(site::GEOM, 2 * sq);
        let mut made: Vec<SendPtr<Box<dyn DynTask>>> = Vec::new();
        for i in 0..n {
            let k = if tape::choose(site::OPKIND, 2) == 0 { Kind::Recv } else { Kind::Truncate };
            made.push(SendPtr(ops::make(&mut w, k, Some(fd), None, 100 + i as u8).task));
        }
        // In half of these runs what this thread starts never completes by
        // itself (reads from an empty pipe): nothing but the wake-up message
        // can end a blocked poll then.
        if tape::chance(site::GEOM, 1, 2) {
            kernel::with(|k| k.silent_by_op.push(2000));
        }
        let late = late.clone();
        let made = SendPtr(made);
        bodies.push(Box::new(move || {
            let made = made;
            let mut kept = Vec::new();
            for mut t in made.0 {
                sched::step_boundary();
                let wk = std::task::Waker::noop();
                let mut cx = Context::from_waker(wk);
                let mut produced = Vec::new();
                let old = kernel::set_cur(2000, During::Poll);
                let _ = t.0.poll(&mut cx, &mut produced);
                kernel::set_cur(old.0, old.1);
                kept.push(t);
            }
            late.lock().unwrap_or_else(|e| e.into_inner()).extend(kept);
        }));
    }
    sched::run_threads(bodies, tape::pick(site::CFG, &[300u32, 100, 600]), 200_000);

    // ------------------------------------------------------------- oracle
    // "A wake makes the poll that is currently blocked, or else the next poll to
    // start, return promptly." For every wake W the poll it is owed to (P*) is the
    // first poll, in order, that
    //  (a) is in its kernel wait when W starts, or enters it later: P* (it must
    //      not sleep until its timeout / forever), or
    //  (b) starts after W started and never waits in the kernel: satisfied;
    // a poll that was already running when W started and never waits is skipped
    // (it cannot have been blocked), and if a poll whose kernel wait had ended
    // is still running when W starts, W may legitimately be consumed by it: no
    // obligation is derived from such a W.
    let waits: Vec<(usize, u64, u64, bool)> = kernel::with(|k| k.wait_log.clone());
    let polls_now = polls.lock().unwrap_or_else(|e| e.into_inner()).clone();
    let wakes_now = wakes.lock().unwrap_or_else(|e| e.into_inner()).clone();
    'wakes: for wk in &wakes_now {
        for (j, p) in polls_now.iter().enumerate() {
            if p.end < wk.start {
                continue; // over before the wake started
            }
            let wait = waits.iter().find(|(_, ws, we, _)| *ws > p.start && *we < p.end);
            match wait {
                Some((_, ws, we, expired)) if *we > wk.start => {
                    if *expired {
                        violation(
                            if *ws < wk.start { "wakeup.poll-timed-out" } else { "wakeup.poll-stuck" },
                            format!(
                                "Ring::poll #{j} ({:?}) slept until its timeout (or forever) in the kernel (events {ws}..{we}) although a wake() call ran at events {}..{} (ring kind {kind}, sq {sq})",
                                p.timeout, wk.start, wk.end
                            ),
                        );
                        break 'wakes;
                    }
                    continue 'wakes;
                }
                Some(_) => continue 'wakes, // its wait was over, it may consume W
                None if p.start > wk.start || p.refused => continue 'wakes, // prompt, never blocked
                None => {}                  // running, never blocks: the next poll owes it
            }
        }
    }
    let polls = polls.lock().unwrap_or_else(|e| e.into_inner()).clone();
    let wakes = wakes.lock().unwrap_or_else(|e| e.into_inner()).clone();
    for (j, p) in polls.iter().enumerate() {
        let prev_end = if j == 0 { 0 } else { polls[j - 1].end };
        let covering: Vec<&WakeRec> = wakes
            .iter()
            .filter(|w| w.start > prev_end && w.end < p.end)
            .collect();
        if covering.iter().any(|w| w.end < p.start) {
            stats::inc(C::probe_wake_before_poll);
        }
        if covering.iter().any(|w| w.start > p.start) {
            stats::inc(C::probe_wake_while_blocked);
        }
        if p.expired && !covering.is_empty() {
            let class = if p.timeout.is_some() { "wakeup.poll-timed-out" } else { "wakeup.poll-stuck" };
            violation(
                class,
                format!(
                    "Ring::poll #{j} ({:?}) {} although {} wake() call(s) started after the previous poll returned and completed before it ended (ring kind {kind}, sq {sq})",
                    p.timeout,
                    if p.timeout.is_some() { "ran into its timeout" } else { "blocked forever" },
                    covering.len()
                ),
            );
        }
    }
    drop(fillers);
    let late = std::mem::take(&mut *late.lock().unwrap_or_else(|e| e.into_inner()));
    drop(late);
    let World { sq: s2, fds, .. } = w;
    alloc::a10(|| {
        drop(fds);
        drop(s2);
        drop(sqh);
    });
    for v in alloc::take_violations() {
        violation(v.class, v.detail);
    }
}

// --------------------------------------------------------------- mt-pool

pub fn mt_pool() {
    let size = tape::pick(site::GEOM, &[4u16, 2, 8, 1]);
    let kcfg = KCfg {
        p_yield_act: tape::pick(site::CFG, &[300u32, 100, 600]),
        ..KCfg::default()
    };
    kernel::with(|k| k.cfg = kcfg);
    // Buffers are released from any thread, also on single-issuer rings (a
    // release is a memory write, no system call).
    let single_issuer = tape::chance(site::GEOM, 1, 3);
    let ring = alloc::a10(|| {
        let mut c = a10::Ring::config().with_submission_queue_size(8);
        if single_issuer {
            c = c.single_issuer();
        }
        c.build()
    });
    let Ok(mut ring) = ring else {
        report::harness_error("ring build failed".to_string());
        return;
    };
    let sqh = alloc::a10(|| ring.sq());
    let mut w = World {
        ring: None,
        sq: sqh,
        fds: Vec::new(),
        pools: Vec::new(),
        direct_enabled: false,
        other: None,
        signals: Vec::new(),
    };
    let fd = w.new_fd();
    let pool = match alloc::a10(|| a10::io::ReadBufPool::new(w.sq.clone(), size, 16)) {
        Ok(p) => p,
        Err(e) => {
            report::harness_error(format!("pool: {e}"));
            return;
        }
    };
    w.pools.push(pool);
    trace(&[tag::CFG, u32::from(size), u32::from(single_issuer)]);
    // Rounds: fill the pool through reads (one thread), then release from
    // several threads at once while the kernel watches the ring tail.
    let rounds = 1 + tape::choose(site::GEOM, 3);
    let ring_cell = Arc::new(Mutex::new(SendPtr(Some(ring))));
    for _round in 0..rounds {
        let mut bufs: Vec<a10::io::ReadBuf> = Vec::new();
        {
            let mut guard = ring_cell.lock().unwrap_or_else(|e| e.into_inner());
            let ring = guard.0.as_mut().unwrap();
            let want = 1 + tape::choose(site::GEOM, u32::from(size));
            for i in 0..want {
                let made = ops::make(&mut w, Kind::ReadPool, Some(fd), Some(0), i as u8);
                let mut t = made.task;
                let wk = std::task::Waker::noop();
                let mut cx = Context::from_waker(wk);
                let mut produced = Vec::new();
                let old = kernel::set_cur(i, During::Poll);
                let mut r = t.poll(&mut cx, &mut produced);
                for _ in 0..8 {
                    if r.is_ready() {
                        break;
                    }
                    let _ = alloc::a10(|| ring.poll(Some(Duration::ZERO)));
                    kernel::with(|k| {
                        for kid in k.completable(0) {
                            k.complete_kid(0, kid, true);
                        }
                    });
                    let _ = alloc::a10(|| ring.poll(Some(Duration::ZERO)));
                    r = t.poll(&mut cx, &mut produced);
                }
                kernel::set_cur(old.0, old.1);
                drop(t);
                for p in produced {
                    if let Produced::ReadBuf(b) = p {
                        bufs.push(b);
                    }
                }
            }
        }
        // Hand the buffers to 2-3 threads.
        let nthreads = 2 + tape::choose(site::GEOM, 2) as usize;
        let mut shares: Vec<Vec<a10::io::ReadBuf>> = (0..nthreads).map(|_| Vec::new()).collect();
        for b in bufs {
            let t = tape::choose(site::TARGET, nthreads as u32) as usize;
            shares[t].push(b);
        }
        let mut bodies: Vec<Box<dyn FnOnce() + Send>> = Vec::new();
        for share in shares {
            let share = SendPtr(share);
            bodies.push(Box::new(move || {
                let share = share;
                for mut b in share.0 {
                    stats::inc(C::probe_mt_release);
                    sched::step_boundary();
                    alloc::a10(|| {
                        b.release();
                        drop(b);
                    });
                }
            }));
        }
        sched::run_threads(bodies, tape::pick(site::CFG, &[400u32, 200, 800]), 100_000);
        kernel::with(|k| k.observe_pbufs(0));
        // Everything must be back.
        let lost: Vec<u16> = kernel::with(|k| {
            k.rings[0]
                .pbufs
                .values()
                .flat_map(|p| p.handed_out.clone())
                .collect()
        });
        if !lost.is_empty() && !report::has_violation() {
            violation(
                "pool.lost-buffer",
                format!("after concurrent releases pool buffer(s) {lost:?} are not offered to the kernel again"),
            );
        }
        let windows: Vec<Vec<u16>> = kernel::with(|k| k.rings[0].pbufs.values().map(kernel::Pbuf::window).collect());
        for win in windows {
            if win.len() != size as usize && !report::has_violation() {
                violation(
                    "pool.lost-buffer",
                    format!("the kernel can use {} of the pool's {size} buffers after every ReadBuf was released", win.len()),
                );
            }
        }
        if report::has_violation() {
            break;
        }
    }
    let ring = ring_cell.lock().unwrap_or_else(|e| e.into_inner()).0.take().unwrap();
    let World { sq, fds, pools, .. } = w;
    alloc::a10(|| {
        drop(fds);
        drop(pools);
        drop(sq);
        drop(ring);
    });
    for v in alloc::take_violations() {
        violation(v.class, v.detail);
    }
}

// ----------------------------------------------------------- mt-teardown

/// `mt-teardown` (C12, C01, C06): operations are started on 1-3 threads and
/// then everything is dropped from different threads, the Ring at a drawn
/// point, with preemption at every yield point (`Ring::drop`'s final poll
/// against another thread's `State::drop`).
pub fn mt_teardown() {
    let sq = tape::pick(site::GEOM, &[4u32, 2, 8, 1]);
    let cq = sq * tape::pick(site::GEOM, &[1u32, 2, 4]);
    let mut kcfg = crate::engine::draw_kcfg(true);
    kcfg.sq_start = draw_counter(sq);
    kcfg.cq_start = draw_counter(cq);
    kcfg.p_yield_act = tape::pick(site::CFG, &[100u32, 300, 30]);
    kcfg.enter_faults = false;
    kernel::with(|k| k.cfg = kcfg);
    // A quarter of the runs: a single-issuer ring, which belongs to the thread
    // that polls and drops it; the other threads only share its handles.
    let single_issuer = tape::chance(site::GEOM, 1, 4);
    let ring = alloc::a10(|| {
        let mut c = a10::Ring::config()
            .with_submission_queue_size(sq)
            .with_completion_queue_size(cq);
        if single_issuer {
            c = c.single_issuer();
        }
        c.build()
    });
    let Ok(ring) = ring else {
        report::harness_error("ring build failed".to_string());
        return;
    };
    let sqh = alloc::a10(|| ring.sq());
    let mut w = World {
        ring: None,
        sq: sqh,
        fds: Vec::new(),
        pools: Vec::new(),
        direct_enabled: false,
        other: None,
        signals: Vec::new(),
    };
    let fd = w.new_fd();
    if tape::chance(site::GEOM, 1, 2) {
        if let Ok(p) = alloc::a10(|| a10::io::ReadBufPool::new(w.sq.clone(), 2, 16)) {
            w.pools.push(p);
        }
    }
    trace(&[tag::CFG, sq, cq, w.pools.len() as u32, u32::from(single_issuer)]);
    // Start operations (single-threaded phase), some get completions.
    const KINDS: &[Kind] = &[
        Kind::ReadVec,
        Kind::WriteVec,
        Kind::SendZc,
        Kind::Recv,
        Kind::Accept,
        Kind::Open,
        Kind::MultishotAccept,
        Kind::ReadPool,
        Kind::MultishotRead,
        Kind::WriteTracked,
        Kind::Truncate,
    ];
    let n = 1 + tape::choose(site::GEOM, 8);
    let mut tasks: Vec<SendPtr<Box<dyn DynTask>>> = Vec::new();
    let wk = std::task::Waker::noop();
    ops::tracked_reset();
    for i in 0..n {
        let kinds: Vec<Kind> = KINDS.iter().copied().filter(|k| !k.needs_pool() || !w.pools.is_empty()).collect();
        let kind = kinds[tape::choose(site::OPKIND, kinds.len() as u32) as usize];
        let f = if kind.needs_fd() { Some(fd) } else { None };
        let pool = if kind.needs_pool() { Some(0) } else { None };
        let made = ops::make(&mut w, kind, f, pool, i as u8 + 1);
        let mut t = made.task;
        if tape::chance(site::STEP, 4, 5) {
            let mut cx = Context::from_waker(wk);
            let mut produced = Vec::new();
            let old = kernel::set_cur(i, During::Poll);
            let _ = t.poll(&mut cx, &mut produced);
            kernel::set_cur(old.0, old.1);
            for p in produced {
                ops::drop_produced(p);
            }
        }
        tasks.push(SendPtr(t));
    }
    // Distribute the handles over the threads.
    let nthreads = 2 + tape::choose(site::GEOM, 2) as usize;
    let mut shares: Vec<Vec<SendPtr<Box<dyn DynTask>>>> = (0..nthreads).map(|_| Vec::new()).collect();
    for t in tasks {
        let k = tape::choose(site::TARGET, nthreads as u32) as usize;
        shares[k].push(t);
    }
    let ring_thread = tape::choose(site::TARGET, nthreads as u32) as usize;
    let polls_before_drop = tape::choose(site::STEP, 3);
    let mut ring_opt = Some(SendPtr(ring));
    let all_dropped = Arc::new(AtomicU32::new(0));
    let mut bodies: Vec<Box<dyn FnOnce() + Send>> = Vec::new();
    for (ti, share) in shares.into_iter().enumerate() {
        let ring = if ti == ring_thread { ring_opt.take() } else { None };
        let ring_pos = tape::choose(site::DROP, share.len() as u32 + 1) as usize;
        let all_dropped = all_dropped.clone();
        let share = SendPtr(share);
        bodies.push(Box::new(move || {
            let share = share;
            let mut ring = ring;
            if ring.is_some() {
                kernel::with(|k| k.rings[0].submitter = Some(sched::tid()));
            }
            let mut drop_ring = |ring: &mut Option<SendPtr<a10::Ring>>| {
                if let Some(r) = ring.take() {
                    let mut r = r;
                    for _ in 0..polls_before_drop {
                        let _ = alloc::a10(|| r.0.poll(Some(Duration::ZERO)));
                        sched::step_boundary();
                    }
                    ev!("h t{}: drop ring", sched::tid());
                    kernel::with(|k| {
                k.in_ring_drop = true;
                k.ring_drop_seen = true;
            });
                    alloc::a10(|| drop(r));
                    kernel::with(|k| k.in_ring_drop = false);
                }
            };
            for (i, t) in share.0.into_iter().enumerate() {
                if i == ring_pos {
                    drop_ring(&mut ring);
                }
                sched::step_boundary();
                ev!("h t{}: drop an operation", sched::tid());
                let old = kernel::set_cur(3000 + sched::tid() as u32, During::Drop);
                drop(t);
                kernel::set_cur(old.0, old.1);
            }
            drop_ring(&mut ring);
            all_dropped.fetch_add(1, Ordering::AcqRel);
        }));
    }
    sched::run_threads(bodies, tape::pick(site::CFG, &[300u32, 100, 600]), 200_000);
    // The remaining handles go after the ring.
    let World { sq: s2, fds, pools, .. } = w;
    alloc::a10(|| {
        drop(pools);
        drop(fds);
        drop(s2);
    });
    for v in alloc::take_violations() {
        violation(v.class, v.detail);
    }
    kernel::with(|k| k.check_lost_submissions(0));
    // Ledger: mappings, ring descriptor, registrations (descriptors of AsyncFds
    // dropped after the ring are the recorded known finding).
    kernel::with(|k| k.refresh_ring_fds());
    let (maps, closed, pbufs) = kernel::with(|k| {
        let r = &k.rings[0];
        (
            [
                (r.sq_mem.maps, r.sq_mem.unmaps),
                (r.cq_mem.maps, r.cq_mem.unmaps),
                (r.sqes_mem.maps, r.sqes_mem.unmaps),
            ],
            r.fd_closed,
            r.pbufs.values().filter(|p| !p.refused).count(),
        )
    });
    if !report::has_violation() {
        for (i, (m, u)) in maps.iter().enumerate() {
            if m != u {
                violation(
                    "teardown.mmap-imbalance",
                    format!("ring mapping {i}: mapped {m} times, unmapped {u} times after every handle was dropped"),
                );
            }
        }
        if !closed {
            violation("teardown.fd-left", "the ring's descriptor is still open after every handle was dropped".to_string());
        }
        if pbufs != 0 {
            violation("teardown.registration-left", format!("{pbufs} buffer ring(s) still registered"));
        }
    }
    if !report::has_violation() {
        crate::engine::check_leaks();
    }
}
