//! Multi-threaded scenarios under the baton scheduler: `mt-sq` (C04),
//! `mt-life` (C03), `mt-wake` (C11), `mt-pool` (C08).

use std::sync::atomic::{AtomicBool, AtomicU32, AtomicU64, Ordering};
use std::sync::{Arc, Mutex};
use std::task::{Context, Poll};
use std::time::Duration;


use crate::exec::*;
use crate::kernel::{self, During, KCfg};
use crate::ops::{self, Kind, World};
use crate::report::{self, tag, trace, violation};
use crate::stats::{self, C};
use crate::tape::{self, site};
use crate::{alloc, ev, sched};

struct SendPtr<T>(T);
unsafe impl<T> Send for SendPtr<T> {}

struct MtTask {
    id: u32,
    name: &'static str,
    task: Box<dyn DynTask>,
    expect: ops::Expect,
    wakers: TaskWakers,
    polled: bool,
    finished: bool,
    out: Option<Out>,
}

fn draw_counter(entries: u32) -> u32 {
    let k = tape::choose(site::COUNTER, 2 * entries + 1);
    match tape::choose(site::COUNTER, 4) {
        0 => 0,
        1 => (1u32 << 31).wrapping_sub(k),
        2 => 0u32.wrapping_sub(k),
        _ => 0u32.wrapping_sub(1 + tape::choose(site::COUNTER, 3)),
    }
}

/// Shared body of `mt-sq` and `mt-life`.
fn mt_ops(kinds: &'static [Kind], sq_sizes: &[u32], faults: bool) {
    let sq = tape::pick(site::GEOM, sq_sizes);
    let cq = sq * tape::pick(site::GEOM, &[4u32, 2, 8]);
    let sqpoll = tape::chance(site::GEOM, 1, 5);
    let nthreads = 2 + tape::choose(site::GEOM, 3) as usize;
    let mut kcfg = if faults { crate::engine::draw_kcfg(true) } else { KCfg::default() };
    kcfg.p_intr = 0;
    kcfg.sq_start = draw_counter(sq);
    kcfg.cq_start = draw_counter(cq);
    kcfg.random_layout = tape::chance(site::GEOM, 1, 3);
    kcfg.p_yield_act = tape::pick(site::CFG, &[100u32, 300, 30]);
    kcfg.p_complete_in_wait = 60;
    kcfg.sqpoll_sleepy = tape::chance(site::CFG, 1, 2);
    kernel::with(|k| k.cfg = kcfg);
    trace(&[tag::CFG, sq, cq, u32::from(sqpoll), nthreads as u32]);
    ev!("h mt config sq={sq} cq={cq} sqpoll={sqpoll} threads={nthreads}");

    let ring = alloc::a10(|| {
        let mut c = a10::Ring::config()
            .with_submission_queue_size(sq)
            .with_completion_queue_size(cq);
        if sqpoll {
            c = c.with_kernel_thread();
        }
        c.build()
    });
    let Ok(ring) = ring else {
        report::harness_error("ring build failed".to_string());
        return;
    };
    let sqh = alloc::a10(|| ring.sq());
    let mut w = World {
        ring: None,
        sq: sqh,
        fds: Vec::new(),
        pools: Vec::new(),
        direct_enabled: false,
        other: None,
        signals: Vec::new(),
    };
    let fd = w.new_fd();

    // Build the per-thread task lists.
    let mut next_id = 0u32;
    let mut lists: Vec<Vec<MtTask>> = Vec::new();
    for _ in 0..nthreads {
        let n = 2 + tape::choose(site::GEOM, 5);
        let mut list = Vec::new();
        for _ in 0..n {
            let kind = kinds[tape::choose(site::OPKIND, kinds.len() as u32) as usize];
            let id = next_id;
            next_id += 1;
            let f = if kind.needs_fd() { Some(fd) } else { None };
            let made = ops::make(&mut w, kind, f, None, (id as u8).wrapping_mul(7).wrapping_add(3));
            stats::inc(C::total_ops_created);
            list.push(MtTask {
                id,
                name: made.name,
                task: made.task,
                expect: made.expect,
                wakers: TaskWakers::new(id),
                polled: false,
                finished: false,
                out: None,
            });
        }
        lists.push(list);
    }
    let total = next_id;
    let done = Arc::new(AtomicU32::new(0));
    let gave_up = Arc::new(AtomicBool::new(false));
    let results: Arc<Mutex<Vec<(u32, &'static str, Option<Out>, ops::Expect)>>> = Arc::new(Mutex::new(Vec::new()));

    let mut bodies: Vec<Box<dyn FnOnce() + Send>> = Vec::new();
    for list in lists {
        let done = done.clone();
        let gave_up = gave_up.clone();
        let results = results.clone();
        let list = SendPtr(list);
        bodies.push(Box::new(move || {
            let mut list = list;
            let list = &mut list.0;
            let mut spins = 0u32;
            loop {
                let mut pending = 0;
                for t in list.iter_mut() {
                    if t.finished {
                        continue;
                    }
                    pending += 1;
                    if t.polled && !t.wakers.fired() {
                        continue;
                    }
                    t.wakers.clear();
                    let wk = t.wakers.waker();
                    let mut cx = Context::from_waker(&wk);
                    let mut produced = Vec::new();
                    let old = kernel::set_cur(t.id, During::Poll);
                    let r = t.task.poll(&mut cx, &mut produced);
                    kernel::set_cur(old.0, old.1);
                    t.polled = true;
                    for p in produced {
                        ops::drop_produced(p);
                    }
                    if let Poll::Ready(o) = r {
                        ev!("h t{} op#{} -> {o:?}", sched::tid(), t.id);
                        t.finished = true;
                        t.out = o;
                        done.fetch_add(1, Ordering::AcqRel);
                    } else {
                        ev!("h t{} op#{} -> Pending", sched::tid(), t.id);
                    }
                    sched::step_boundary();
                }
                if pending == 0 {
                    break;
                }
                spins += 1;
                if spins > 20_000 {
                    gave_up.store(true, Ordering::Release);
                    break;
                }
                // Nothing is runnable here until a waker fires: let others run.
                if !list.iter().any(|t| !t.finished && (!t.polled || t.wakers.fired())) && !sched::idle() {
                    // Nothing can ever wake these tasks.
                    gave_up.store(true, Ordering::Release);
                    break;
                }
            }
            // Never hold a harness lock across a call into a10 (it may yield).
            let mut mine = Vec::new();
            for t in list.drain(..) {
                let MtTask { id, name, task, expect, out, .. } = t;
                drop(task);
                mine.push((id, name, out, expect));
            }
            results.lock().unwrap_or_else(|e| e.into_inner()).extend(mine);
        }));
    }
    // The ring thread.
    {
        let done = done.clone();
        let gave_up = gave_up.clone();
        let ring = SendPtr(ring);
        bodies.push(Box::new(move || {
            let mut ring = ring;
            let ring_ref = &mut ring.0;
            let mut rounds = 0;
            while done.load(Ordering::Acquire) < total && !gave_up.load(Ordering::Acquire) && rounds < 6000 {
                stats::inc(C::total_ring_polls);
                let r = alloc::a10(|| ring_ref.poll(Some(Duration::from_millis(1))));
                if let Err(e) = r {
                    let code = e.raw_os_error().unwrap_or(0);
                    if code != libc::EBUSY && code != libc::EINTR && code != libc::EAGAIN {
                        violation("panic", format!("Ring::poll failed: {e}"));
                    }
                }
                rounds += 1;
                sched::step_boundary();
            }
            kernel::with(|k| k.in_ring_drop = true);
            alloc::a10(|| drop(ring));
            kernel::with(|k| k.in_ring_drop = false);
        }));
    }
    stats::inc(C::probe_concurrent_submit);
    sched::run_threads(bodies, tape::pick(site::CFG, &[300u32, 100, 600]), 400_000);

    // ------------------------------------------------------------- oracle
    let res = std::mem::take(&mut *results.lock().unwrap_or_else(|e| e.into_inner()));
    for (id, name, out, expect) in &res {
        let recs: Vec<kernel::OpRecord> = kernel::with(|k| {
            k.records
                .iter()
                .filter(|r| r.by_op == *id && r.during == During::Poll)
                .cloned()
                .collect()
        });
        match out {
            None => {
                if !report::has_violation() {
                    let class = if recs.is_empty() { "wake.lost-queue-space" } else if recs.last().is_some_and(|r| r.done) { "wake.lost-completion" } else { "sq.lost" };
                    violation(
                        class,
                        format!(
                            "{name} (op#{id}) never finished: {} submission(s) reached the kernel, {}",
                            recs.len(),
                            if recs.last().is_some_and(|r| r.done) { "its completion was posted" } else { "no completion was posted" }
                        ),
                    );
                }
            }
            Some(got) => {
                if recs.len() != 1 {
                    violation(
                        "sq.duplicate",
                        format!("{name} (op#{id}) finished but the kernel consumed {} submissions for it", recs.len()),
                    );
                } else if recs[0].cqes.is_empty() {
                    violation(
                        "res.made-up",
                        format!("{name} (op#{id}) resolved with {got:?} although the kernel posted no completion for it"),
                    );
                } else {
                    let want = expect(&recs[0], 0);
                    if *got != want && !ops::is_composite(Kind::SyncAll) {
                        violation(
                            "res.wrong",
                            format!("{name} (op#{id}): got {got:?}, kernel scripted {want:?}"),
                        );
                    }
                }
            }
        }
    }
    drop(res);
    let World { sq, fds, .. } = w;
    alloc::a10(|| {
        drop(fds);
        drop(sq);
    });
    for v in alloc::take_violations() {
        violation(v.class, v.detail);
    }
}

const SQ_KINDS: &[Kind] = &[Kind::Truncate, Kind::Advise, Kind::WriteVec, Kind::SyncAll, Kind::Allocate];
const LIFE_KINDS: &[Kind] = &[
    Kind::Truncate,
    Kind::ReadVec,
    Kind::WriteVec,
    Kind::SyncAll,
    Kind::Recv,
    Kind::Send,
    Kind::SendZc,
    Kind::Metadata,
    Kind::Open,
    Kind::Waitid,
];

pub fn mt_sq() {
    mt_ops(SQ_KINDS, &[1, 2, 4], false);
}

pub fn mt_life() {
    mt_ops(LIFE_KINDS, &[1, 2, 4], true);
}

// --------------------------------------------------------------- mt-wake

/// Global logical clock of the scenario (events, not time).
static SEQ: AtomicU64 = AtomicU64::new(0);

fn stamp() -> u64 {
    SEQ.fetch_add(1, Ordering::AcqRel)
}

#[derive(Clone, Debug)]
struct PollRec {
    start: u64,
    end: u64,
    timeout: Option<Duration>,
    /// Ended by the (long) timeout or because nothing could ever wake it.
    expired: bool,
}

#[derive(Clone, Debug)]
struct WakeRec {
    start: u64,
    end: u64,
}

pub fn mt_wake() {
    SEQ.store(0, Ordering::Release);
    let kind = tape::choose(site::GEOM, 4); // 0,1: default, 2: sqpoll, 3: single issuer
    let sq = tape::pick(site::GEOM, &[2u32, 1, 4, 8]);
    let defer = kind == 3 && tape::chance(site::GEOM, 1, 2);
    let mut kcfg = KCfg {
        p_yield_act: tape::pick(site::CFG, &[0u32, 100, 300]),
        sqpoll_sleepy: tape::chance(site::CFG, 1, 2),
        p_complete_in_wait: 0,
        sq_start: draw_counter(sq),
        cq_start: draw_counter(2 * sq),
        ..KCfg::default()
    };
    kcfg.random_layout = tape::chance(site::GEOM, 1, 3);
    kernel::with(|k| k.cfg = kcfg);
    trace(&[tag::CFG, kind, sq, u32::from(defer)]);
    ev!("h mt-wake kind={kind} sq={sq} defer={defer}");
    let ring = alloc::a10(|| {
        let mut c = a10::Ring::config().with_submission_queue_size(sq);
        match kind {
            2 => c = c.with_kernel_thread(),
            3 => {
                c = c.single_issuer();
                if defer {
                    c = c.defer_task_run();
                }
            }
            _ => {}
        }
        c.build()
    });
    let Ok(ring) = ring else {
        report::harness_error("ring build failed".to_string());
        return;
    };
    let sqh = alloc::a10(|| ring.sq());
    // Optionally keep the submission queue busy/full with never completing ops.
    let mut w = World {
        ring: None,
        sq: sqh.clone(),
        fds: Vec::new(),
        pools: Vec::new(),
        direct_enabled: false,
        other: None,
        signals: Vec::new(),
    };
    let fd = w.new_fd();
    let nfill = tape::choose(site::GEOM, sq + 1);
    let mut fillers: Vec<Box<dyn DynTask>> = Vec::new();
    for i in 0..nfill {
        let made = ops::make(&mut w, Kind::Recv, Some(fd), None, i as u8);
        let mut t = made.task;
        let wk = std::task::Waker::noop();
        let mut cx = Context::from_waker(wk);
        let mut produced = Vec::new();
        let _ = t.poll(&mut cx, &mut produced);
        fillers.push(t);
    }

    let npolls = 1 + tape::choose(site::GEOM, 4);
    let nwakers = 1 + tape::choose(site::GEOM, 3) as usize;
    let polls: Arc<Mutex<Vec<PollRec>>> = Arc::new(Mutex::new(Vec::new()));
    let wakes: Arc<Mutex<Vec<WakeRec>>> = Arc::new(Mutex::new(Vec::new()));
    let ring_dropped = Arc::new(AtomicBool::new(false));
    let mut bodies: Vec<Box<dyn FnOnce() + Send>> = Vec::new();
    {
        let polls = polls.clone();
        let ring = SendPtr(ring);
        let ring_dropped = ring_dropped.clone();
        let timeouts: Vec<Option<Duration>> = (0..npolls)
            .map(|_| if tape::choose(site::GEOM, 2) == 0 { Some(Duration::from_secs(10)) } else { None })
            .collect();
        bodies.push(Box::new(move || {
            let mut ring = ring;
            let r = &mut ring.0;
            for t in timeouts {
                let before = kernel::with(|k| (k.clock_ns, k.stuck_waits));
                let start = stamp();
                ev!("h poller: Ring::poll({t:?}) starts");
                let res = alloc::a10(|| r.poll(t));
                let end = stamp();
                let after = kernel::with(|k| (k.clock_ns, k.stuck_waits));
                // Did this poll sleep until its own timeout, or block forever?
                // (a10 shortens the timeout to zero when it was awoken.)
                let expired = after.1 != before.1
                    || t.is_some_and(|d| u128::from(after.0 - before.0) >= d.as_nanos());
                ev!("h poller: Ring::poll -> {res:?}");
                polls.lock().unwrap_or_else(|e| e.into_inner()).push(PollRec {
                    start,
                    end,
                    timeout: t,
                    expired,
                });
                sched::step_boundary();
            }
            alloc::a10(|| drop(ring));
            ring_dropped.store(true, Ordering::Release);
            sched::progress();
            ev!("h poller: ring dropped");
        }));
    }
    for wi in 0..nwakers {
        let wakes = wakes.clone();
        let sqh = sqh.clone();
        let n = 1 + tape::choose(site::GEOM, 3);
        let ring_dropped = ring_dropped.clone();
        let late = tape::chance(site::GEOM, 1, 4);
        bodies.push(Box::new(move || {
            for _ in 0..n {
                sched::step_boundary();
                let start = stamp();
                if ring_dropped.load(Ordering::Acquire) {
                    stats::inc(C::probe_wake_after_ring_drop);
                }
                ev!("h waker{wi}: wake() starts");
                let old = kernel::set_cur(1000 + wi as u32, During::Other);
                alloc::a10(|| sqh.wake());
                kernel::set_cur(old.0, old.1);
                let end = stamp();
                ev!("h waker{wi}: wake() returned");
                wakes.lock().unwrap_or_else(|e| e.into_inner()).push(WakeRec { start, end });
            }
            if late {
                // Keep the handle until the ring is gone, then wake once more.
                let mut spins = 0;
                while !ring_dropped.load(Ordering::Acquire) && spins < 20_000 {
                    if !sched::idle() {
                        break;
                    }
                    spins += 1;
                }
                if ring_dropped.load(Ordering::Acquire) {
                    stats::inc(C::probe_wake_after_ring_drop);
                    ev!("h waker{wi}: wake() after the ring was dropped");
                    alloc::a10(|| sqh.wake());
                }
            }
            alloc::a10(|| drop(sqh));
        }));
    }
    sched::run_threads(bodies, tape::pick(site::CFG, &[300u32, 100, 600]), 200_000);

    // ------------------------------------------------------------- oracle
    let polls = polls.lock().unwrap_or_else(|e| e.into_inner()).clone();
    let wakes = wakes.lock().unwrap_or_else(|e| e.into_inner()).clone();
    for (j, p) in polls.iter().enumerate() {
        let prev_end = if j == 0 { 0 } else { polls[j - 1].end };
        let covering: Vec<&WakeRec> = wakes
            .iter()
            .filter(|w| w.start > prev_end && w.end < p.end)
            .collect();
        if covering.iter().any(|w| w.end < p.start) {
            stats::inc(C::probe_wake_before_poll);
        }
        if covering.iter().any(|w| w.start > p.start) {
            stats::inc(C::probe_wake_while_blocked);
        }
        if p.expired && !covering.is_empty() {
            let class = if p.timeout.is_some() { "wakeup.poll-timed-out" } else { "wakeup.poll-stuck" };
            violation(
                class,
                format!(
                    "Ring::poll #{j} ({:?}) {} although {} wake() call(s) started after the previous poll returned and completed before it ended (ring kind {kind}, sq {sq})",
                    p.timeout,
                    if p.timeout.is_some() { "ran into its timeout" } else { "blocked forever" },
                    covering.len()
                ),
            );
        }
    }
    drop(fillers);
    let World { sq: s2, fds, .. } = w;
    alloc::a10(|| {
        drop(fds);
        drop(s2);
        drop(sqh);
    });
    for v in alloc::take_violations() {
        violation(v.class, v.detail);
    }
}

// --------------------------------------------------------------- mt-pool

pub fn mt_pool() {
    let size = tape::pick(site::GEOM, &[4u16, 2, 8, 1]);
    let kcfg = KCfg {
        p_yield_act: tape::pick(site::CFG, &[300u32, 100, 600]),
        ..KCfg::default()
    };
    kernel::with(|k| k.cfg = kcfg);
    let ring = alloc::a10(|| a10::Ring::config().with_submission_queue_size(8).build());
    let Ok(mut ring) = ring else {
        report::harness_error("ring build failed".to_string());
        return;
    };
    let sqh = alloc::a10(|| ring.sq());
    let mut w = World {
        ring: None,
        sq: sqh,
        fds: Vec::new(),
        pools: Vec::new(),
        direct_enabled: false,
        other: None,
        signals: Vec::new(),
    };
    let fd = w.new_fd();
    let pool = match alloc::a10(|| a10::io::ReadBufPool::new(w.sq.clone(), size, 16)) {
        Ok(p) => p,
        Err(e) => {
            report::harness_error(format!("pool: {e}"));
            return;
        }
    };
    w.pools.push(pool);
    trace(&[tag::CFG, u32::from(size)]);
    // Rounds: fill the pool through reads (one thread), then release from
    // several threads at once while the kernel watches the ring tail.
    let rounds = 1 + tape::choose(site::GEOM, 3);
    let ring_cell = Arc::new(Mutex::new(SendPtr(Some(ring))));
    for _round in 0..rounds {
        let mut bufs: Vec<a10::io::ReadBuf> = Vec::new();
        {
            let mut guard = ring_cell.lock().unwrap_or_else(|e| e.into_inner());
            let ring = guard.0.as_mut().unwrap();
            let want = 1 + tape::choose(site::GEOM, u32::from(size));
            for i in 0..want {
                let made = ops::make(&mut w, Kind::ReadPool, Some(fd), Some(0), i as u8);
                let mut t = made.task;
                let wk = std::task::Waker::noop();
                let mut cx = Context::from_waker(wk);
                let mut produced = Vec::new();
                let old = kernel::set_cur(i, During::Poll);
                let mut r = t.poll(&mut cx, &mut produced);
                for _ in 0..8 {
                    if r.is_ready() {
                        break;
                    }
                    let _ = alloc::a10(|| ring.poll(Some(Duration::ZERO)));
                    kernel::with(|k| {
                        for kid in k.completable(0) {
                            k.complete_kid(0, kid, true);
                        }
                    });
                    let _ = alloc::a10(|| ring.poll(Some(Duration::ZERO)));
                    r = t.poll(&mut cx, &mut produced);
                }
                kernel::set_cur(old.0, old.1);
                drop(t);
                for p in produced {
                    if let Produced::ReadBuf(b) = p {
                        bufs.push(b);
                    }
                }
            }
        }
        // Hand the buffers to 2-3 threads.
        let nthreads = 2 + tape::choose(site::GEOM, 2) as usize;
        let mut shares: Vec<Vec<a10::io::ReadBuf>> = (0..nthreads).map(|_| Vec::new()).collect();
        for b in bufs {
            let t = tape::choose(site::TARGET, nthreads as u32) as usize;
            shares[t].push(b);
        }
        let mut bodies: Vec<Box<dyn FnOnce() + Send>> = Vec::new();
        for share in shares {
            let share = SendPtr(share);
            bodies.push(Box::new(move || {
                let share = share;
                for mut b in share.0 {
                    stats::inc(C::probe_mt_release);
                    sched::step_boundary();
                    alloc::a10(|| {
                        b.release();
                        drop(b);
                    });
                }
            }));
        }
        sched::run_threads(bodies, tape::pick(site::CFG, &[400u32, 200, 800]), 100_000);
        kernel::with(|k| k.observe_pbufs(0));
        // Everything must be back.
        let lost: Vec<u16> = kernel::with(|k| {
            k.rings[0]
                .pbufs
                .values()
                .flat_map(|p| p.handed_out.clone())
                .collect()
        });
        if !lost.is_empty() && !report::has_violation() {
            violation(
                "pool.lost-buffer",
                format!("after concurrent releases pool buffer(s) {lost:?} are not offered to the kernel again"),
            );
        }
        let windows: Vec<Vec<u16>> = kernel::with(|k| k.rings[0].pbufs.values().map(kernel::Pbuf::window).collect());
        for win in windows {
            if win.len() != size as usize && !report::has_violation() {
                violation(
                    "pool.lost-buffer",
                    format!("the kernel can use {} of the pool's {size} buffers after every ReadBuf was released", win.len()),
                );
            }
        }
        if report::has_violation() {
            break;
        }
    }
    let ring = ring_cell.lock().unwrap_or_else(|e| e.into_inner()).0.take().unwrap();
    let World { sq, fds, pools, .. } = w;
    alloc::a10(|| {
        drop(fds);
        drop(pools);
        drop(sq);
        drop(ring);
    });
    for v in alloc::take_violations() {
        violation(v.class, v.detail);
    }
}
