//! `life`: operation life-cycle, one thread plus the kernel actor.

use crate::engine::{self, BASE, Engine};
use crate::report;
use crate::tape::{self, site};

pub fn run_profile(prof: engine::Profile) {
    let max_steps = prof.max_steps;
    let early_p = prof.p_ring_drop_early;
    let Some(mut e) = Engine::new(prof) else {
        return;
    };
    let steps = 3 + tape::choose(site::STEP, max_steps - 2);
    let early = tape::chance(site::STEP, early_p, 100);
    for _ in 0..steps {
        e.step();
        if report::has_violation() {
            break;
        }
    }
    if report::has_violation() {
        // Stop at the first violation, tear down quietly.
        e.end(false, false);
        return;
    }
    if early {
        crate::stats::inc(crate::stats::C::probe_ring_dropped_first);
        e.end(true, false);
    } else {
        e.quiesce();
        let clean = !report::has_violation();
        let ring_first = tape::chance(site::DROP, 1, 4);
        e.end(ring_first, clean && !ring_first);
    }
    if !report::has_violation() {
        engine::check_leaks();
    }
}

pub fn life() {
    run_profile(BASE);
}
