//! `life`: operation life-cycle, one thread plus the kernel actor.

use crate::engine::{self, BASE, Engine};
use crate::report;
use crate::tape::{self, site};

pub fn run_profile(prof: engine::Profile) {
    let max_steps = prof.max_steps;
    let early_p = prof.p_ring_drop_early;
    let Some(mut e) = Engine::new(prof) else {
        return;
    };
    let steps = 3 + tape::choose(site::STEP, max_steps - 2);
    let early = tape::chance(site::STEP, early_p, 100);
    for _ in 0..steps {
        e.step();
        if report::has_violation() {
            break;
        }
    }
    if report::has_violation() {
        // Stop at the first violation, tear down quietly.
        e.end(false, false);
        return;
    }
    if early {
        crate::stats::inc(crate::stats::C::probe_ring_dropped_first);
        e.end(true, false);
    } else {
        e.quiesce();
        if !report::has_violation() && !e.stuck {
            e.drop_all_bufs();
            e.check_pool_conservation();
        }
        let clean = !report::has_violation() && !e.stuck;
        let shuffle = tape::chance(site::DROP, 1, 3);
        e.end(shuffle, clean);
    }
    if !report::has_violation() {
        engine::check_leaks();
    }
}

pub fn life() {
    run_profile(BASE);
}

/// `cq`: small completion queues, many concurrent operations of the same
/// type, noise, overflow, batches split across `Ring::poll` calls.
pub fn cq() {
    use crate::ops::Kind::*;
    run_profile(engine::Profile {
        name: "cq",
        kinds: &[ReadVec, ReadVec, WriteVec, SendZc, SendVectoredZc, SyncAll, Recv, MultishotAccept, MultishotRead, MultishotRecv, Accept, ReadPool, Metadata],
        sq_sizes: &[8, 4, 16, 2],
        cq_mults: &[1, 2],
        max_steps: 50,
        max_tasks: 12,
        w_create: 8,
        w_poll: 8,
        w_drop: 2,
        w_ringpoll: 3,
        w_kcomplete: 10,
        w_dropfd: 0,
        w_closefd: 0,
        w_relbuf: 2,
        p_ring_drop_early: 3,
        tweak: |c| {
            c.noise = true;
            c.p_intr = c.p_intr.min(15);
        },
        ..BASE
    });
}

/// `blocked`: more tasks than submission slots, operations that never
/// complete before the quiescence phase; only `Ring::poll` makes room.
pub fn blocked() {
    use crate::ops::Kind::*;
    run_profile(engine::Profile {
        name: "blocked",
        kinds: &[ReadVec, WriteVec, SyncAll, Recv, Send, Accept, Open, Socket, Truncate, Metadata, MultishotAccept, SendZc],
        sq_sizes: &[1, 2],
        cq_mults: &[1, 2, 4],
        max_steps: 30,
        max_tasks: 6,
        w_create: 8,
        w_poll: 10,
        w_drop: 1,
        w_ringpoll: 4,
        w_kcomplete: 1,
        w_dropfd: 1,
        w_closefd: 0,
        w_relbuf: 0,
        p_ring_drop_early: 0,
        pools: false,
        ..BASE
    });
}

/// `fd`: histories of descriptor-creating operations, drops and closes.
pub fn fd() {
    use crate::ops::Kind::*;
    run_profile(engine::Profile {
        name: "fd",
        kinds: &[Open, OpenDirect, OpenExtract, Socket, SocketDirect, Pipe, PipeDirect, Accept, MultishotAccept, ToDirect, ToFile, SyncAll, WriteVec, ReadVec, SignalsToDirect, ReceiveSignal],
        sq_sizes: &[4, 2, 1, 8],
        cq_mults: &[2, 4, 1],
        max_steps: 40,
        max_tasks: 8,
        w_create: 8,
        w_poll: 10,
        w_drop: 2,
        w_ringpoll: 5,
        w_kcomplete: 6,
        w_dropfd: 4,
        w_closefd: 3,
        w_relbuf: 0,
        w_stdio: 2,
        p_ring_drop_early: 0,
        pools: false,
        tweak: |c| {
            c.p_intr = 0;
        },
        ..BASE
    });
}

/// `restart`: completions are interrupted (EINTR/ECANCELED) most of the time.
pub fn restart() {
    run_profile(engine::Profile {
        name: "restart",
        max_steps: 40,
        w_kcomplete: 8,
        w_drop: 1,
        p_ring_drop_early: 2,
        tweak: |c| {
            c.p_intr = 45;
            c.p_errno = c.p_errno.min(10);
        },
        ..BASE
    });
}

/// `pool`: provided-buffer pool histories with edits of the buffers.
pub fn pool() {
    use crate::ops::Kind::*;
    run_profile(engine::Profile {
        name: "pool",
        kinds: &[ReadPool, ReadPool, RecvFromPool, MultishotRead, MultishotRecv, ReadVec, WriteVec],
        sq_sizes: &[8, 4, 2],
        cq_mults: &[2, 4],
        max_steps: 50,
        max_tasks: 6,
        w_create: 7,
        w_poll: 9,
        w_drop: 2,
        w_ringpoll: 5,
        w_kcomplete: 8,
        w_dropfd: 0,
        w_closefd: 0,
        w_relbuf: 5,
        w_edit: 8,
        w_bufio: 2,
        p_ring_drop_early: 3,
        direct: false,
        force_pool: true,
        ..BASE
    });
}

/// `teardown`: object graphs dropped in any order, the ring at any position.
pub fn teardown() {
    use crate::ops::Kind::*;
    // A third of the runs concentrates on two-step (zero-copy) sends whose
    // notification can outlive the Ring: memory the kernel still owns while
    // every handle goes away in a drawn order.
    if tape::chance(site::GEOM, 1, 3) {
        run_profile(engine::Profile {
            name: "teardown",
            kinds: &[SendZc, SendVectoredZc, SendZc, Send, Recv, ReadVec, MultishotAccept, WriteVec],
            max_steps: 20,
            max_tasks: 5,
            w_kcomplete: 4,
            p_ring_drop_early: 75,
            tweak: |c| c.p_notif_survives = 70,
            ..BASE
        });
        return;
    }
    run_profile(engine::Profile {
        name: "teardown",
        max_steps: 30,
        w_kcomplete: 3,
        p_ring_drop_early: 60,
        ..BASE
    });
}

/// `pool-wrap`: more than 2^16 releases on one pool, so the 16 bit tail of the
/// buffer ring wraps (thorough tier only; one long history per run).
pub fn pool_wrap() {
    use std::task::{Context, Poll};
    use crate::exec::{DynTask, Produced};
    use crate::kernel::{self, KCfg};
    use crate::ops::{self, Kind, World};
    use crate::{alloc, stats};
    kernel::with(|k| {
        k.cfg = KCfg {
            p_yield_act: tape::pick(site::CFG, &[0u32, 20]),
            ..KCfg::default()
        }
    });
    // Variant: a pool with more than 4096 buffers, all held, so that buffer ids
    // need more than 12 bits.
    let big_ids = tape::chance(site::GEOM, 1, 3);
    let size = if big_ids { 8192u16 } else { tape::pick(site::GEOM, &[2u16, 1, 4, 8]) };
    let ring = alloc::a10(|| a10::Ring::config().with_submission_queue_size(4).build());
    let Ok(mut ring) = ring else {
        report::harness_error("ring build failed".to_string());
        return;
    };
    let sqh = alloc::a10(|| ring.sq());
    let mut w = World {
        ring: None,
        sq: sqh,
        fds: Vec::new(),
        pools: Vec::new(),
        direct_enabled: false,
        other: None,
        signals: Vec::new(),
    };
    let fd = w.new_fd();
    match alloc::a10(|| a10::io::ReadBufPool::new(w.sq.clone(), size, 8)) {
        Ok(p) => w.pools.push(p),
        Err(e) => {
            report::harness_error(format!("pool: {e}"));
            return;
        }
    }
    // Variant: the 16-bit buffer-group id generator wraps while this pool is
    // alive; the colliding registration fails (EEXIST) and must leave this
    // pool alone.
    let id_wrap = !big_ids && tape::chance(site::GEOM, 1, 2);
    if id_wrap {
        let mut refused = 0u32;
        for n in 0..65_540u32 {
            if n % 1024 == 0 {
                crate::orch::beat();
            }
            match alloc::a10(|| a10::io::ReadBufPool::new(w.sq.clone(), 1, 8)) {
                Ok(p) => alloc::a10(|| drop(p)),
                Err(e) if e.raw_os_error() == Some(libc::EEXIST) => refused += 1,
                Err(e) => {
                    report::harness_error(format!("short-lived pool: {e}"));
                    return;
                }
            }
        }
        crate::ev!("h {refused} pool registration(s) refused with EEXIST (group id in use)");
        if refused > 0 {
            stats::inc(stats::C::probe_pool_id_collision);
        }
        for v in alloc::take_violations() {
            report::violation(v.class, v.detail);
        }
    }
    let total = if big_ids {
        4200
    } else if id_wrap {
        40
    } else {
        66_000 + tape::choose(site::GEOM, 3000)
    };
    let mut held: Vec<a10::io::ReadBuf> = Vec::new();
    let wk = std::task::Waker::noop();
    for i in 0..total {
        if i % 1024 == 0 {
            crate::orch::beat();
        }
        let made = ops::make(&mut w, Kind::ReadPool, Some(fd), Some(0), i as u8);
        let mut t: Box<dyn DynTask> = made.task;
        let mut cx = Context::from_waker(wk);
        let mut produced = Vec::new();
        let old = kernel::set_cur(i, kernel::During::Poll);
        let mut r = t.poll(&mut cx, &mut produced);
        for _ in 0..4 {
            if r.is_ready() {
                break;
            }
            let _ = alloc::a10(|| ring.poll(Some(std::time::Duration::ZERO)));
            kernel::with(|k| {
                for kid in k.completable(0) {
                    k.complete_kid(0, kid, true);
                }
            });
            let _ = alloc::a10(|| ring.poll(Some(std::time::Duration::ZERO)));
            r = t.poll(&mut cx, &mut produced);
        }
        kernel::set_cur(old.0, old.1);
        if !matches!(r, Poll::Ready(Some(Ok(_)))) && !matches!(r, Poll::Ready(Some(Err(libc::ENOBUFS)))) {
            report::violation("pool.lost-buffer", format!("pool read #{i} ended with {r:?}"));
        }
        // C02: the bytes returned are the bytes the kernel wrote for this read.
        if let Poll::Ready(Some(Ok(got))) = &r {
            let want = kernel::with(|k| k.records.iter().rev().find(|rec| rec.by_op == i).map(|rec| (made.expect)(rec, 0)));
            if let Some(Ok(want)) = want {
                if *got != want {
                    report::violation(
                        "res.wrong",
                        format!("pool read #{i} returned {got:?}, the kernel wrote {want:?} into the buffer it selected"),
                    );
                }
            }
        }
        drop(t);
        for p in produced {
            if let Produced::ReadBuf(b) = p {
                held.push(b);
            }
        }
        // Keep 0..size-1 buffers around, release the rest (the big pool keeps
        // them all: ids go up to the number of reads).
        while !big_ids && held.len() > tape::choose(site::TARGET, u32::from(size)) as usize {
            let j = tape::choose(site::TARGET, held.len() as u32) as usize;
            let b = held.swap_remove(j);
            alloc::a10(|| drop(b));
        }
        kernel::with(|k| k.observe_pbufs(0));
        for v in alloc::take_violations() {
            report::violation(v.class, v.detail);
        }
        if report::has_violation() {
            break;
        }
        // The records are not needed; keep memory bounded.
        if i % 1024 == 0 {
            kernel::with(|k| {
                for r in &mut k.records {
                    r.wrote.clear();
                }
            });
        }
    }
    alloc::a10(|| drop(held));
    kernel::with(|k| k.observe_pbufs(0));
    let (lost, win): (usize, usize) = kernel::with(|k| {
        let p = k.rings[0].pbufs.values().next();
        (p.map_or(0, |p| p.handed_out.len()), p.map_or(0, |p| p.window().len()))
    });
    if (lost != 0 || win != size as usize) && !report::has_violation() {
        report::violation(
            "pool.lost-buffer",
            format!("after {total} releases the kernel can use {win} of {size} buffers ({lost} still handed out)"),
        );
    }
    stats::add(stats::C::total_steps, u64::from(total));
    let World { sq, fds, pools, .. } = w;
    alloc::a10(|| {
        drop(fds);
        drop(pools);
        drop(sq);
        drop(ring);
    });
    for v in alloc::take_violations() {
        report::violation(v.class, v.detail);
    }
}

/// `pool-cross`: two rings, pools on both, reads that pair a descriptor of one
/// ring with a pool buffer of the other (safe API, nothing prevents it). A
/// buffer group is known to its own ring only: such a read ends with ENOBUFS
/// and never makes the kernel touch the memory of a pool the operation does
/// not keep alive; pool handles are dropped at drawn moments.
pub fn pool_cross() {
    use std::task::{Context, Poll};
    use crate::exec::{DynTask, Produced};
    use crate::kernel::{self, KCfg};
    use crate::ops::{self, Kind, World};
    use crate::{alloc, stats};
    kernel::with(|k| {
        k.cfg = KCfg {
            p_yield_act: tape::pick(site::CFG, &[0u32, 20]),
            foreign_groups: true,
            ..KCfg::default()
        }
    });
    let mut rings: Vec<a10::Ring> = Vec::new();
    for _ in 0..2 {
        let size = tape::pick(site::GEOM, &[4u32, 8, 2]);
        match alloc::a10(|| a10::Ring::config().with_submission_queue_size(size).build()) {
            Ok(r) => rings.push(r),
            Err(e) => {
                report::harness_error(format!("ring build failed: {e}"));
                return;
            }
        }
    }
    let mut sqs: Vec<Option<a10::SubmissionQueue>> = rings.iter().map(|r| Some(alloc::a10(|| r.sq()))).collect();
    let mut w = World {
        ring: None,
        sq: alloc::a10(|| sqs[0].as_ref().unwrap().clone()),
        fds: Vec::new(),
        pools: Vec::new(),
        direct_enabled: false,
        other: None,
        signals: Vec::new(),
    };
    // Descriptors of both rings.
    let mut fd_ring: Vec<usize> = Vec::new();
    for r in 0..2 {
        for _ in 0..1 + tape::choose(site::GEOM, 2) {
            let n = kernel::with(|k| k.issue_fd("harness", kernel::NO_OP));
            let sq = sqs[r].as_ref().unwrap();
            let fd = alloc::a10(|| unsafe { a10::AsyncFd::from_raw_fd(n, sq.clone()) });
            w.add_fd(fd);
            fd_ring.push(r);
        }
    }
    // Pools in a drawn creation order; both rings get at least one.
    let mut pool_ring: Vec<usize> = vec![0, 1];
    for _ in 0..tape::choose(site::GEOM, 3) {
        pool_ring.push(tape::choose(site::GEOM, 2) as usize);
    }
    if tape::chance(site::GEOM, 1, 2) {
        pool_ring.swap(0, 1);
    }
    let mut pools: Vec<Option<a10::io::ReadBufPool>> = Vec::new();
    for r in &pool_ring {
        let size = tape::pick(site::GEOM, &[2u16, 1, 4]);
        let sq = sqs[*r].as_ref().unwrap();
        match alloc::a10(|| a10::io::ReadBufPool::new(sq.clone(), size, 16)) {
            Ok(p) => pools.push(Some(p)),
            Err(e) => {
                report::harness_error(format!("pool: {e}"));
                return;
            }
        }
    }
    struct T {
        id: u32,
        task: Box<dyn DynTask>,
        expect: ops::Expect,
        cross: bool,
        single: bool,
        name: &'static str,
    }
    let mut tasks: Vec<T> = Vec::new();
    let mut held: Vec<a10::io::ReadBuf> = Vec::new();
    let mut next_id = 0u32;
    let wk = std::task::Waker::noop();
    let steps = 6 + tape::choose(site::STEP, 24);
    let flush = || {
        for v in alloc::take_violations() {
            report::violation(v.class, v.detail);
        }
    };
    for _ in 0..steps {
        match tape::choose(site::STEP, 16) {
            0..=3 if tasks.len() < 4 => {
                let live: Vec<usize> = (0..pools.len()).filter(|j| pools[*j].is_some()).collect();
                if live.is_empty() {
                    continue;
                }
                let j = live[tape::choose(site::TARGET, live.len() as u32) as usize];
                let f = tape::choose(site::TARGET, w.fds.len() as u32) as usize;
                let kind = tape::pick(site::OPKIND, &[Kind::ReadPool, Kind::ReadPool, Kind::RecvFromPool, Kind::MultishotRead, Kind::MultishotRecv]);
                let cross = fd_ring[f] != pool_ring[j];
                let id = next_id;
                next_id += 1;
                w.pools.push(alloc::a10(|| pools[j].as_ref().unwrap().clone()));
                let old = kernel::set_cur(id, kernel::During::Other);
                let made = ops::make(&mut w, kind, Some(f), Some(0), id as u8);
                kernel::set_cur(old.0, old.1);
                let h = w.pools.pop();
                alloc::a10(|| drop(h));
                crate::ev!(
                    "h op#{id} {} on a descriptor of ring {} with pool {j} of ring {}",
                    made.name,
                    fd_ring[f],
                    pool_ring[j]
                );
                if cross {
                    stats::inc(stats::C::probe_pool_cross_ring);
                }
                tasks.push(T {
                    id,
                    task: made.task,
                    expect: made.expect,
                    cross,
                    single: matches!(kind, Kind::ReadPool | Kind::RecvFromPool),
                    name: made.name,
                });
            }
            0..=7 if !tasks.is_empty() => {
                let i = tape::choose(site::TARGET, tasks.len() as u32) as usize;
                let mut cx = Context::from_waker(wk);
                let mut produced = Vec::new();
                let old = kernel::set_cur(tasks[i].id, kernel::During::Poll);
                let r = tasks[i].task.poll(&mut cx, &mut produced);
                kernel::set_cur(old.0, old.1);
                let t = &tasks[i];
                crate::ev!("h poll op#{} -> {r:?}", t.id);
                let mut done = false;
                match &r {
                    Poll::Pending => {}
                    Poll::Ready(None) => done = true,
                    Poll::Ready(Some(Ok(got))) => {
                        done = t.single;
                        if t.cross {
                            report::violation(
                                "pool.foreign-buffer",
                                format!(
                                    "{} (op#{}) on a descriptor of one ring with a buffer of the other ring's pool returned {got:?}: the kernel selected a buffer of a pool this operation does not keep alive",
                                    t.name, t.id
                                ),
                            );
                        } else if t.single {
                            let want = kernel::with(|k| k.records.iter().rev().find(|rec| rec.by_op == t.id).map(|rec| (t.expect)(rec, 0)));
                            if let Some(Ok(want)) = want {
                                if *got != want {
                                    report::violation(
                                        "res.wrong",
                                        format!("{} (op#{}) returned {got:?}, the kernel wrote {want:?}", t.name, t.id),
                                    );
                                }
                            }
                        }
                    }
                    Poll::Ready(Some(Err(e))) => {
                        done = true;
                        if t.cross && *e != libc::ENOBUFS {
                            report::violation(
                                "pool.foreign-buffer",
                                format!(
                                    "{} (op#{}) with a buffer group the ring does not know ended with error {e} instead of ENOBUFS",
                                    t.name, t.id
                                ),
                            );
                        }
                    }
                }
                for p in produced {
                    if let Produced::ReadBuf(b) = p {
                        held.push(b);
                    }
                }
                if done {
                    let t = tasks.swap_remove(i);
                    let old = kernel::set_cur(t.id, kernel::During::Drop);
                    alloc::a10(|| drop(t.task));
                    kernel::set_cur(old.0, old.1);
                }
            }
            8..=9 => {
                let r = tape::choose(site::TARGET, 2) as usize;
                let res = alloc::a10(|| rings[r].poll(Some(std::time::Duration::ZERO)));
                if let Err(e) = res {
                    report::violation("panic", format!("Ring::poll failed: {e}"));
                }
            }
            10..=12 => {
                let r = tape::choose(site::TARGET, 2) as usize;
                kernel::with(|k| k.complete_some(r));
            }
            13 if !tasks.is_empty() => {
                let i = tape::choose(site::TARGET, tasks.len() as u32) as usize;
                let t = tasks.swap_remove(i);
                crate::ev!("h drop op#{}", t.id);
                let old = kernel::set_cur(t.id, kernel::During::Drop);
                alloc::a10(|| drop(t.task));
                kernel::set_cur(old.0, old.1);
            }
            14 => {
                let live: Vec<usize> = (0..pools.len()).filter(|j| pools[*j].is_some()).collect();
                if !live.is_empty() {
                    let j = live[tape::choose(site::TARGET, live.len() as u32) as usize];
                    crate::ev!("h drop the handle of pool {j} (ring {})", pool_ring[j]);
                    let p = pools[j].take();
                    alloc::a10(|| drop(p));
                }
            }
            _ if !held.is_empty() => {
                let j = tape::choose(site::TARGET, held.len() as u32) as usize;
                let b = held.swap_remove(j);
                alloc::a10(|| drop(b));
            }
            _ => {}
        }
        kernel::with(|k| {
            k.observe_pbufs(0);
            k.observe_pbufs(1);
        });
        flush();
        if report::has_violation() {
            break;
        }
    }
    stats::add(stats::C::total_steps, u64::from(steps));
    // Wind down: futures first, what the kernel still runs is finished, then
    // buffers, pools, descriptors, queue handles and the rings.
    for t in tasks.drain(..) {
        let old = kernel::set_cur(t.id, kernel::During::Drop);
        alloc::a10(|| drop(t.task));
        kernel::set_cur(old.0, old.1);
    }
    for _ in 0..6 {
        for r in 0..2 {
            let _ = alloc::a10(|| rings[r].poll(Some(std::time::Duration::ZERO)));
            kernel::with(|k| {
                for kid in k.completable(r) {
                    k.complete_kid(r, kid, true);
                }
            });
            let _ = alloc::a10(|| rings[r].poll(Some(std::time::Duration::ZERO)));
        }
    }
    alloc::a10(|| drop(held));
    kernel::with(|k| {
        k.observe_pbufs(0);
        k.observe_pbufs(1);
    });
    flush();
    let World { sq, fds, .. } = w;
    alloc::a10(|| {
        drop(pools);
        drop(fds);
        drop(sq);
        sqs.clear();
        drop(rings);
    });
    flush();
}
