//! `life`: operation life-cycle, one thread plus the kernel actor.

use crate::engine::{self, BASE, Engine};
use crate::report;
use crate::tape::{self, site};

pub fn run_profile(prof: engine::Profile) {
    let max_steps = prof.max_steps;
    let early_p = prof.p_ring_drop_early;
    let Some(mut e) = Engine::new(prof) else {
        return;
    };
    let steps = 3 + tape::choose(site::STEP, max_steps - 2);
    let early = tape::chance(site::STEP, early_p, 100);
    for _ in 0..steps {
        e.step();
        if report::has_violation() {
            break;
        }
    }
    if report::has_violation() {
        // Stop at the first violation, tear down quietly.
        e.end(false, false);
        return;
    }
    if early {
        crate::stats::inc(crate::stats::C::probe_ring_dropped_first);
        e.end(true, false);
    } else {
        e.quiesce();
        if !report::has_violation() && !e.stuck {
            e.drop_all_bufs();
            e.check_pool_conservation();
        }
        let clean = !report::has_violation() && !e.stuck;
        let shuffle = tape::chance(site::DROP, 1, 3);
        e.end(shuffle, clean);
    }
    if !report::has_violation() {
        engine::check_leaks();
    }
}

pub fn life() {
    run_profile(BASE);
}

/// `cq`: small completion queues, many concurrent operations of the same
/// type, noise, overflow, batches split across `Ring::poll` calls.
pub fn cq() {
    use crate::ops::Kind::*;
    run_profile(engine::Profile {
        name: "cq",
        kinds: &[ReadVec, ReadVec, WriteVec, SendZc, SendVectoredZc, SyncAll, Recv, MultishotAccept, MultishotRead, MultishotRecv, Accept, ReadPool, Metadata],
        sq_sizes: &[8, 4, 16, 2],
        cq_mults: &[1, 2],
        max_steps: 50,
        max_tasks: 12,
        w_create: 8,
        w_poll: 8,
        w_drop: 2,
        w_ringpoll: 3,
        w_kcomplete: 10,
        w_dropfd: 0,
        w_closefd: 0,
        w_relbuf: 2,
        p_ring_drop_early: 3,
        tweak: |c| {
            c.noise = true;
            c.p_intr = c.p_intr.min(15);
        },
        ..BASE
    });
}

/// `blocked`: more tasks than submission slots, operations that never
/// complete before the quiescence phase; only `Ring::poll` makes room.
pub fn blocked() {
    use crate::ops::Kind::*;
    run_profile(engine::Profile {
        name: "blocked",
        kinds: &[ReadVec, WriteVec, SyncAll, Recv, Send, Accept, Open, Socket, Truncate, Metadata, MultishotAccept, SendZc],
        sq_sizes: &[1, 2],
        cq_mults: &[1, 2, 4],
        max_steps: 30,
        max_tasks: 6,
        w_create: 8,
        w_poll: 10,
        w_drop: 1,
        w_ringpoll: 4,
        w_kcomplete: 1,
        w_dropfd: 1,
        w_closefd: 0,
        w_relbuf: 0,
        p_ring_drop_early: 0,
        pools: false,
        ..BASE
    });
}

/// `fd`: histories of descriptor-creating operations, drops and closes.
pub fn fd() {
    use crate::ops::Kind::*;
    run_profile(engine::Profile {
        name: "fd",
        kinds: &[Open, OpenDirect, OpenExtract, Socket, SocketDirect, Pipe, PipeDirect, Accept, MultishotAccept, ToDirect, ToFile, SyncAll, WriteVec, ReadVec, SignalsToDirect, ReceiveSignal],
        sq_sizes: &[4, 2, 1, 8],
        cq_mults: &[2, 4, 1],
        max_steps: 40,
        max_tasks: 8,
        w_create: 8,
        w_poll: 10,
        w_drop: 2,
        w_ringpoll: 5,
        w_kcomplete: 6,
        w_dropfd: 4,
        w_closefd: 3,
        w_relbuf: 0,
        w_stdio: 2,
        p_ring_drop_early: 0,
        pools: false,
        tweak: |c| {
            c.p_intr = 0;
        },
        ..BASE
    });
}

/// `restart`: completions are interrupted (EINTR/ECANCELED) most of the time.
pub fn restart() {
    run_profile(engine::Profile {
        name: "restart",
        max_steps: 40,
        w_kcomplete: 8,
        w_drop: 1,
        p_ring_drop_early: 2,
        tweak: |c| {
            c.p_intr = 45;
            c.p_errno = c.p_errno.min(10);
        },
        ..BASE
    });
}

/// `pool`: provided-buffer pool histories with edits of the buffers.
pub fn pool() {
    use crate::ops::Kind::*;
    run_profile(engine::Profile {
        name: "pool",
        kinds: &[ReadPool, ReadPool, RecvFromPool, MultishotRead, MultishotRecv, ReadVec, WriteVec],
        sq_sizes: &[8, 4, 2],
        cq_mults: &[2, 4],
        max_steps: 50,
        max_tasks: 6,
        w_create: 7,
        w_poll: 9,
        w_drop: 2,
        w_ringpoll: 5,
        w_kcomplete: 8,
        w_dropfd: 0,
        w_closefd: 0,
        w_relbuf: 5,
        w_edit: 8,
        w_bufio: 2,
        p_ring_drop_early: 3,
        direct: false,
        force_pool: true,
        ..BASE
    });
}

/// `teardown`: object graphs dropped in any order, the ring at any position.
pub fn teardown() {
    use crate::ops::Kind::*;
    // A third of the runs concentrates on two-step (zero-copy) sends whose
    // notification can outlive the Ring: memory the kernel still owns while
    // every handle goes away in a drawn order.
    if tape::chance(site::GEOM, 1, 3) {
        run_profile(engine::Profile {
            name: "teardown",
            kinds: &[SendZc, SendVectoredZc, SendZc, Send, Recv, ReadVec, MultishotAccept, WriteVec],
            max_steps: 20,
            max_tasks: 5,
            w_kcomplete: 4,
            p_ring_drop_early: 75,
            tweak: |c| c.p_notif_survives = 70,
            ..BASE
        });
        return;
    }
    run_profile(engine::Profile {
        name: "teardown",
        max_steps: 30,
        w_kcomplete: 3,
        p_ring_drop_early: 60,
        ..BASE
    });
}

/// `pool-wrap`: more than 2^16 releases on one pool, so the 16 bit tail of the
/// buffer ring wraps (thorough tier only; one long history per run).
pub fn pool_wrap() {
    use std::task::{Context, Poll};
    use crate::exec::{DynTask, Produced};
    use crate::kernel::{self, KCfg};
    use crate::ops::{self, Kind, World};
    use crate::{alloc, stats};
    kernel::with(|k| {
        k.cfg = KCfg {
            p_yield_act: tape::pick(site::CFG, &[0u32, 20]),
            ..KCfg::default()
        }
    });
    // Variant: a pool with more than 4096 buffers, all held, so that buffer ids
    // need more than 12 bits.
    let big_ids = tape::chance(site::GEOM, 1, 3);
    let size = if big_ids { 8192u16 } else { tape::pick(site::GEOM, &[2u16, 1, 4, 8]) };
    let ring = alloc::a10(|| a10::Ring::config().with_submission_queue_size(4).build());
    let Ok(mut ring) = ring else {
        report::harness_error("ring build failed".to_string());
        return;
    };
    let sqh = alloc::a10(|| ring.sq());
    let mut w = World {
        ring: None,
        sq: sqh,
        fds: Vec::new(),
        pools: Vec::new(),
        direct_enabled: false,
        other: None,
        signals: Vec::new(),
    };
    let fd = w.new_fd();
    match alloc::a10(|| a10::io::ReadBufPool::new(w.sq.clone(), size, 8)) {
        Ok(p) => w.pools.push(p),
        Err(e) => {
            report::harness_error(format!("pool: {e}"));
            return;
        }
    }
    // Variant: the 16-bit buffer-group id generator wraps while this pool is
    // alive; the colliding registration fails (EEXIST) and must leave this
    // pool alone.
    let id_wrap = !big_ids && tape::chance(site::GEOM, 1, 2);
    if id_wrap {
        let mut refused = 0u32;
        for _ in 0..65_540u32 {
            match alloc::a10(|| a10::io::ReadBufPool::new(w.sq.clone(), 1, 8)) {
                Ok(p) => alloc::a10(|| drop(p)),
                Err(e) if e.raw_os_error() == Some(libc::EEXIST) => refused += 1,
                Err(e) => {
                    report::harness_error(format!("short-lived pool: {e}"));
                    return;
                }
            }
        }
        crate::ev!("h {refused} pool registration(s) refused with EEXIST (group id in use)");
        if refused > 0 {
            stats::inc(stats::C::probe_pool_id_collision);
        }
        for v in alloc::take_violations() {
            report::violation(v.class, v.detail);
        }
    }
    let total = if big_ids {
        4200
    } else if id_wrap {
        40
    } else {
        66_000 + tape::choose(site::GEOM, 3000)
    };
    let mut held: Vec<a10::io::ReadBuf> = Vec::new();
    let wk = std::task::Waker::noop();
    for i in 0..total {
        let made = ops::make(&mut w, Kind::ReadPool, Some(fd), Some(0), i as u8);
        let mut t: Box<dyn DynTask> = made.task;
        let mut cx = Context::from_waker(wk);
        let mut produced = Vec::new();
        let old = kernel::set_cur(i, kernel::During::Poll);
        let mut r = t.poll(&mut cx, &mut produced);
        for _ in 0..4 {
            if r.is_ready() {
                break;
            }
            let _ = alloc::a10(|| ring.poll(Some(std::time::Duration::ZERO)));
            kernel::with(|k| {
                for kid in k.completable(0) {
                    k.complete_kid(0, kid, true);
                }
            });
            let _ = alloc::a10(|| ring.poll(Some(std::time::Duration::ZERO)));
            r = t.poll(&mut cx, &mut produced);
        }
        kernel::set_cur(old.0, old.1);
        if !matches!(r, Poll::Ready(Some(Ok(_)))) && !matches!(r, Poll::Ready(Some(Err(libc::ENOBUFS)))) {
            report::violation("pool.lost-buffer", format!("pool read #{i} ended with {r:?}"));
        }
        // C02: the bytes returned are the bytes the kernel wrote for this read.
        if let Poll::Ready(Some(Ok(got))) = &r {
            let want = kernel::with(|k| k.records.iter().rev().find(|rec| rec.by_op == i).map(|rec| (made.expect)(rec, 0)));
            if let Some(Ok(want)) = want {
                if *got != want {
                    report::violation(
                        "res.wrong",
                        format!("pool read #{i} returned {got:?}, the kernel wrote {want:?} into the buffer it selected"),
                    );
                }
            }
        }
        drop(t);
        for p in produced {
            if let Produced::ReadBuf(b) = p {
                held.push(b);
            }
        }
        // Keep 0..size-1 buffers around, release the rest (the big pool keeps
        // them all: ids go up to the number of reads).
        while !big_ids && held.len() > tape::choose(site::TARGET, u32::from(size)) as usize {
            let j = tape::choose(site::TARGET, held.len() as u32) as usize;
            let b = held.swap_remove(j);
            alloc::a10(|| drop(b));
        }
        kernel::with(|k| k.observe_pbufs(0));
        for v in alloc::take_violations() {
            report::violation(v.class, v.detail);
        }
        if report::has_violation() {
            break;
        }
        // The records are not needed; keep memory bounded.
        if i % 1024 == 0 {
            kernel::with(|k| {
                for r in &mut k.records {
                    r.wrote.clear();
                }
            });
        }
    }
    alloc::a10(|| drop(held));
    kernel::with(|k| k.observe_pbufs(0));
    let (lost, win): (usize, usize) = kernel::with(|k| {
        let p = k.rings[0].pbufs.values().next();
        (p.map_or(0, |p| p.handed_out.len()), p.map_or(0, |p| p.window().len()))
    });
    if (lost != 0 || win != size as usize) && !report::has_violation() {
        report::violation(
            "pool.lost-buffer",
            format!("after {total} releases the kernel can use {win} of {size} buffers ({lost} still handed out)"),
        );
    }
    stats::add(stats::C::total_steps, u64::from(total));
    let World { sq, fds, pools, .. } = w;
    alloc::a10(|| {
        drop(fds);
        drop(pools);
        drop(sq);
        drop(ring);
    });
    for v in alloc::take_violations() {
        report::violation(v.class, v.detail);
    }
}
