//! Scenario families.

pub mod build;
pub mod composite;
pub mod life;

pub type Scenario = fn();

pub const ALL: &[(&str, Scenario)] = &[
    ("life", life::life),
    ("cq", life::cq),
    ("blocked", life::blocked),
    ("fd", life::fd),
    ("restart", life::restart),
    ("pool", life::pool),
    ("teardown", life::teardown),
    ("composite", composite::composite),
    ("build", build::build),
];

pub fn find(name: &str) -> Option<Scenario> {
    ALL.iter().find(|(n, _)| *n == name).map(|(_, f)| *f)
}
