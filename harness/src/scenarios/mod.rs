//! Scenario families.

pub mod build;
pub mod composite;
pub mod inotify;
pub mod life;
pub mod mt;

pub type Scenario = fn();

pub const ALL: &[(&str, Scenario)] = &[
    ("life", life::life),
    ("cq", life::cq),
    ("blocked", life::blocked),
    ("fd", life::fd),
    ("restart", life::restart),
    ("pool", life::pool),
    ("teardown", life::teardown),
    ("pool-wrap", life::pool_wrap),
    ("pool-cross", life::pool_cross),
    ("composite", composite::composite),
    ("build", build::build),
    ("inotify", inotify::inotify),
    ("mt-sq", mt::mt_sq),
    ("mt-life", mt::mt_life),
    ("mt-wake", mt::mt_wake),
    ("mt-pool", mt::mt_pool),
    ("mt-teardown", mt::mt_teardown),
];

pub fn find(name: &str) -> Option<Scenario> {
    ALL.iter().find(|(n, _)| *n == name).map(|(_, f)| *f)
}
