//! Scenario families.

pub mod life;

pub type Scenario = fn();

pub const ALL: &[(&str, Scenario)] = &[("life", life::life)];

pub fn find(name: &str) -> Option<Scenario> {
    ALL.iter().find(|(n, _)| *n == name).map(|(_, f)| *f)
}
