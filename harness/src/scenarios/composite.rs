//! `composite` (C10): all-or-error composite I/O under arbitrary short
//! transfers. One composite call per run, a scripted sequence of transfer
//! sizes, and a stream oracle on the kernel side.

use std::task::{Context, Poll};
use std::time::Duration;

use a10::Extract;
use a10::io::{BufMut, ReadBufPool};
use a10::net::{RecvFlag, SendFlag};

use crate::abi::*;
use crate::exec::*;
use crate::kernel::{self, During, KCfg, OpRecord};
use crate::ops::{self, World};
use crate::report::{self, tag, trace, violation};
use crate::stats::{self, C};
use crate::tape::{self, site};
use crate::{alloc, ev};

const NO_OFFSET: u64 = u64::MAX;

struct FutTask<F: Future, M> {
    fut: Option<std::pin::Pin<Box<F>>>,
    map: M,
}

impl<F: Future, M: FnMut(F::Output) -> Out> FutTask<F, M> {
    fn poll(&mut self, cx: &mut Context<'_>) -> Poll<Out> {
        let fut = self.fut.as_mut().unwrap();
        match alloc::a10(|| fut.as_mut().poll(cx)) {
            Poll::Ready(o) => Poll::Ready(alloc::a10(|| (self.map)(o))),
            Poll::Pending => Poll::Pending,
        }
    }
}

trait Pollable {
    fn poll(&mut self, cx: &mut Context<'_>) -> Poll<Out>;
}

impl<F: Future, M: FnMut(F::Output) -> Out> Pollable for FutTask<F, M> {
    fn poll(&mut self, cx: &mut Context<'_>) -> Poll<Out> {
        FutTask::poll(self, cx)
    }
}

impl<F: Future, M> Drop for FutTask<F, M> {
    fn drop(&mut self) {
        alloc::a10(|| drop(self.fut.take()));
    }
}

fn task<F, M>(f: F, map: M) -> Box<dyn Pollable>
where
    F: Future + 'static,
    M: FnMut(F::Output) -> Out + 'static,
{
    Box::new(FutTask {
        fut: Some(Box::pin(f)),
        map,
    })
}

fn io_err<T>(r: std::io::Result<T>) -> Result<T, i32> {
    r.map_err(|e| err_code(&e))
}

/// Lengths of 1..=n buffers, some of them empty, total >= 1.
fn draw_lens(n: usize) -> Vec<usize> {
    loop {
        let lens: Vec<usize> = (0..n)
            .map(|_| match tape::choose(site::BUF, 5) {
                0 => 1 + tape::choose(site::BUF, 12) as usize,
                1 => 0,
                2 => 1,
                3 => 1 + tape::choose(site::BUF, 40) as usize,
                _ => 2,
            })
            .collect();
        if lens.iter().sum::<usize>() >= 1 {
            if lens.iter().any(|l| *l == 0) {
                stats::inc(C::probe_composite_empty_buffer);
            }
            return lens;
        }
    }
}

fn data(len: usize, seed: usize) -> Vec<u8> {
    alloc::res(|| (0..len).map(|i| (seed * 37 + i * 11 + 5) as u8).collect())
}

fn vecs<const N: usize>(lens: &[usize]) -> [Vec<u8>; N] {
    std::array::from_fn(|i| data(lens[i], i))
}

fn spare<const N: usize>(caps: &[usize], init: &[usize]) -> [Vec<u8>; N] {
    std::array::from_fn(|i| {
        alloc::res(|| {
            let mut v = Vec::with_capacity(caps[i] + init[i]);
            v.extend((0..init[i]).map(|k| (0xA0 + i * 3 + k) as u8));
            v
        })
    })
}

/// What the call is and what it was given.
struct Call {
    name: String,
    write: bool,
    /// Flattened input bytes (write side).
    input: Vec<u8>,
    /// Buffer boundaries in the flattened input / capacity space.
    bounds: Vec<usize>,
    /// Expected flags on every request (msg_flags).
    flags: u32,
    /// Expected opcodes.
    opcode: u8,
    base_offset: u64,
    /// Read side: target count and per-buffer (initial contents, spare capacity).
    n: usize,
    init: Vec<Vec<u8>>,
    caps: Vec<usize>,
    extract: bool,
    pool: bool,
    /// Total length of an input that is too large to materialise (contents
    /// are not compared then).
    huge: Option<usize>,
    task: Box<dyn Pollable>,
}

fn bounds_of(lens: &[usize]) -> Vec<usize> {
    let mut b = Vec::new();
    let mut acc = 0;
    for l in lens {
        acc += l;
        b.push(acc);
    }
    b
}

macro_rules! write_vectored_call {
    ($f:expr, $n:literal, $lens:expr, $at:expr, $extract:expr) => {{
        let bufs: [Vec<u8>; $n] = vecs(&$lens);
        let fut = alloc::a10(|| {
            let w = $f.write_all_vectored(bufs);
            match $at { Some(o) => w.at(o), None => w }
        });
        if $extract {
            task(alloc::a10(|| fut.extract()), |o| io_err(o).map(|b: [Vec<u8>; $n]| Val::BytesMulti(b.to_vec())))
        } else {
            task(fut, |o| io_err(o).map(|()| Val::Unit))
        }
    }};
}

macro_rules! send_vectored_call {
    ($f:expr, $n:literal, $lens:expr, $flags:expr, $zc:expr, $extract:expr) => {{
        let bufs: [Vec<u8>; $n] = vecs(&$lens);
        let fut = alloc::a10(|| {
            let mut s = $f.send_all_vectored(bufs);
            if let Some(fl) = $flags { s = s.flags(fl); }
            if $zc { s = s.zc(); }
            s
        });
        if $extract {
            task(alloc::a10(|| fut.extract()), |o| io_err(o).map(|b: [Vec<u8>; $n]| Val::BytesMulti(b.to_vec())))
        } else {
            task(fut, |o| io_err(o).map(|()| Val::Unit))
        }
    }};
}

macro_rules! read_vectored_call {
    ($f:expr, $n:literal, $caps:expr, $init:expr, $want:expr, $from:expr) => {{
        let bufs: [Vec<u8>; $n] = spare(&$caps, &$init);
        let fut = alloc::a10(|| {
            let r = $f.read_n_vectored(bufs, $want);
            match $from { Some(o) => r.from(o), None => r }
        });
        task(fut, |o| io_err(o).map(|b: [Vec<u8>; $n]| Val::BytesMulti(b.to_vec())))
    }};
}

macro_rules! recv_vectored_call {
    ($f:expr, $n:literal, $caps:expr, $init:expr, $want:expr, $flags:expr) => {{
        let bufs: [Vec<u8>; $n] = spare(&$caps, &$init);
        let fut = alloc::a10(|| {
            let r = $f.recv_n_vectored(bufs, $want);
            match $flags { Some(fl) => r.flags(fl), None => r }
        });
        task(fut, |o| io_err(o).map(|b: [Vec<u8>; $n]| Val::BytesMulti(b.to_vec())))
    }};
}

#[allow(clippy::too_many_lines)]
/// One lazily zero-filled gigabyte, mapped once per process (reading it
/// allocates nothing).
fn gigabyte() -> &'static [u8] {
    static ADDR: std::sync::OnceLock<usize> = std::sync::OnceLock::new();
    let addr = *ADDR.get_or_init(|| {
        let p = unsafe {
            libc::mmap(
                std::ptr::null_mut(),
                1 << 30,
                libc::PROT_READ,
                libc::MAP_PRIVATE | libc::MAP_ANONYMOUS | libc::MAP_NORESERVE,
                -1,
                0,
            )
        };
        assert!(p != libc::MAP_FAILED, "mapping a gigabyte of zeros failed");
        p as usize
    });
    // SAFETY: mapped above, never unmapped, read-only.
    unsafe { std::slice::from_raw_parts(addr as *const u8, 1 << 30) }
}

fn make_call(w: &World, fd: usize, pool: Option<&ReadBufPool>) -> Call {
    let f = w.fd_ref(fd);
    // Now and then: more than 4 GiB of input in buffers that each fit into
    // 32 bits (five views of one gigabyte of zeros); the kernel takes at most
    // 2 GiB - 4 KiB per request. Only sizes and offsets are compared.
    if tape::chance(site::OPKIND, 1, 40) {
        let g = gigabyte();
        let lens = [g.len(), g.len() - tape::choose(site::BUF, 4096) as usize, g.len(), 1 + tape::choose(site::BUF, 1 << 20) as usize, g.len()];
        let bufs: [&'static [u8]; 5] = [&g[..lens[0]], &g[..lens[1]], &g[..lens[2]], &g[..lens[3]], &g[..lens[4]]];
        let at = if tape::choose(site::BUF, 2) == 1 { Some(u64::from(tape::choose(site::BUF, 5000))) } else { None };
        let fut = alloc::a10(|| {
            let w_ = f.write_all_vectored(bufs);
            match at {
                Some(o) => w_.at(o),
                None => w_,
            }
        });
        return Call {
            name: format!("write_all_vectored(5 static buffers, {} bytes){}", lens.iter().sum::<usize>(), if at.is_some() { ".at" } else { "" }),
            write: true,
            input: Vec::new(),
            bounds: bounds_of(&lens),
            flags: 0,
            opcode: OP_WRITEV,
            base_offset: at.unwrap_or(NO_OFFSET),
            n: 0,
            init: Vec::new(),
            caps: Vec::new(),
            extract: false,
            pool: false,
            huge: Some(lens.iter().sum()),
            task: task(fut, |o| io_err(o).map(|()| Val::Unit)),
        };
    }
    let which = tape::choose(site::OPKIND, 12);
    let at = if tape::choose(site::BUF, 2) == 1 {
        Some(u64::from(tape::choose(site::BUF, 5000)))
    } else {
        None
    };
    let extract = tape::choose(site::BUF, 2) == 1;
    let zc = tape::choose(site::BUF, 3) == 1;
    let sflags = match tape::choose(site::BUF, 3) {
        0 => None,
        1 => Some(SendFlag::MORE),
        _ => Some(SendFlag::DONT_ROUTE | SendFlag::MORE),
    };
    let sflag_bits = match tape::choose(site::BUF, 1) {
        _ => sflags.map_or(0, |f| {
            if f == SendFlag::MORE { libc::MSG_MORE as u32 } else { (libc::MSG_MORE | libc::MSG_DONTROUTE) as u32 }
        }),
    };
    let rflags = if tape::choose(site::BUF, 2) == 1 { Some(RecvFlag::WAIT_ALL) } else { None };
    let rflag_bits = rflags.map_or(0, |_| libc::MSG_WAITALL as u32);
    let narr = [1usize, 2, 3, 5, 8][tape::choose(site::BUF, 5) as usize];
    match which {
        // ---------------------------------------------------- write_all
        0 | 1 => {
            let len = 1 + tape::choose(site::BUF, 60) as usize;
            let kind = tape::choose(site::BUF, 4);
            let buf = data(len, 1);
            let input = buf.clone();
            let task_: Box<dyn Pollable> = match kind {
                0 | 1 => {
                    let fut = alloc::a10(|| {
                        let w_ = f.write_all(buf);
                        match at { Some(o) => w_.at(o), None => w_ }
                    });
                    if extract {
                        task(alloc::a10(|| fut.extract()), |o| io_err(o).map(|b: Vec<u8>| Val::BytesMulti(vec![b])))
                    } else {
                        task(fut, |o| io_err(o).map(|()| Val::Unit))
                    }
                }
                2 => {
                    let b: Box<[u8]> = alloc::res(|| buf.into_boxed_slice());
                    let fut = alloc::a10(|| {
                        let w_ = f.write_all(b);
                        match at { Some(o) => w_.at(o), None => w_ }
                    });
                    if extract {
                        task(alloc::a10(|| fut.extract()), |o| io_err(o).map(|b: Box<[u8]>| Val::BytesMulti(vec![b.to_vec()])))
                    } else {
                        task(fut, |o| io_err(o).map(|()| Val::Unit))
                    }
                }
                _ => {
                    let b: std::sync::Arc<[u8]> = alloc::res(|| std::sync::Arc::from(buf));
                    let fut = alloc::a10(|| {
                        let w_ = f.write_all(b);
                        match at { Some(o) => w_.at(o), None => w_ }
                    });
                    if extract {
                        task(alloc::a10(|| fut.extract()), |o| io_err(o).map(|b: std::sync::Arc<[u8]>| Val::BytesMulti(vec![b.to_vec()])))
                    } else {
                        task(fut, |o| io_err(o).map(|()| Val::Unit))
                    }
                }
            };
            Call {
                name: format!("write_all(kind {kind}){}{}", if at.is_some() { ".at" } else { "" }, if extract { ".extract" } else { "" }),
                write: true,
                bounds: vec![input.len()],
                input,
                flags: 0,
                opcode: OP_WRITE,
                base_offset: at.unwrap_or(NO_OFFSET),
                n: 0,
                init: Vec::new(),
                caps: Vec::new(),
                extract,
                pool: false,
                huge: None,
                task: task_,
            }
        }
        // ------------------------------------------- write_all_vectored
        2 | 3 => {
            let lens = draw_lens(narr);
            let input: Vec<u8> = (0..narr).flat_map(|i| data(lens[i], i)).collect();
            let task_ = match narr {
                1 => write_vectored_call!(f, 1, lens, at, extract),
                2 => write_vectored_call!(f, 2, lens, at, extract),
                3 => write_vectored_call!(f, 3, lens, at, extract),
                5 => write_vectored_call!(f, 5, lens, at, extract),
                _ => write_vectored_call!(f, 8, lens, at, extract),
            };
            Call {
                name: format!("write_all_vectored({lens:?}){}{}", if at.is_some() { ".at" } else { "" }, if extract { ".extract" } else { "" }),
                write: true,
                bounds: bounds_of(&lens),
                input,
                flags: 0,
                opcode: OP_WRITEV,
                base_offset: at.unwrap_or(NO_OFFSET),
                n: 0,
                init: Vec::new(),
                caps: Vec::new(),
                extract,
                pool: false,
                huge: None,
                task: task_,
            }
        }
        // ------------------------------------- write_all_vectored (tuple)
        4 => {
            let lens = draw_lens(3);
            let a = data(lens[0], 0);
            let b: Box<[u8]> = alloc::res(|| data(lens[1], 1).into_boxed_slice());
            let c = data(lens[2], 2);
            let input: Vec<u8> = a.iter().chain(b.iter()).chain(c.iter()).copied().collect();
            let fut = alloc::a10(|| {
                let w_ = f.write_all_vectored((a, b, c));
                match at { Some(o) => w_.at(o), None => w_ }
            });
            let task_ = if extract {
                task(alloc::a10(|| fut.extract()), |o| {
                    io_err(o).map(|(a, b, c): (Vec<u8>, Box<[u8]>, Vec<u8>)| Val::BytesMulti(vec![a, b.to_vec(), c]))
                })
            } else {
                task(fut, |o| io_err(o).map(|()| Val::Unit))
            };
            Call {
                name: format!("write_all_vectored(tuple {lens:?}){}", if at.is_some() { ".at" } else { "" }),
                write: true,
                bounds: bounds_of(&lens),
                input,
                flags: 0,
                opcode: OP_WRITEV,
                base_offset: at.unwrap_or(NO_OFFSET),
                n: 0,
                init: Vec::new(),
                caps: Vec::new(),
                extract,
                pool: false,
                huge: None,
                task: task_,
            }
        }
        // ----------------------------------------------------- send_all
        5 | 6 => {
            let len = 1 + tape::choose(site::BUF, 60) as usize;
            let buf = data(len, 2);
            let input = buf.clone();
            let fut = alloc::a10(|| {
                let mut s = f.send_all(buf);
                if let Some(fl) = sflags { s = s.flags(fl); }
                if zc { s = s.zc(); }
                s
            });
            let task_ = if extract {
                task(alloc::a10(|| fut.extract()), |o| io_err(o).map(|b: Vec<u8>| Val::BytesMulti(vec![b])))
            } else {
                task(fut, |o| io_err(o).map(|()| Val::Unit))
            };
            Call {
                name: format!("send_all(flags {sflag_bits:#x}){}{}", if zc { ".zc" } else { "" }, if extract { ".extract" } else { "" }),
                write: true,
                bounds: vec![input.len()],
                input,
                flags: sflag_bits,
                opcode: if zc { OP_SEND_ZC } else { OP_SEND },
                base_offset: 0,
                n: 0,
                init: Vec::new(),
                caps: Vec::new(),
                extract,
                pool: false,
                huge: None,
                task: task_,
            }
        }
        // -------------------------------------------- send_all_vectored
        7 => {
            let lens = draw_lens(narr);
            let input: Vec<u8> = (0..narr).flat_map(|i| data(lens[i], i)).collect();
            let task_ = match narr {
                1 => send_vectored_call!(f, 1, lens, sflags, zc, extract),
                2 => send_vectored_call!(f, 2, lens, sflags, zc, extract),
                3 => send_vectored_call!(f, 3, lens, sflags, zc, extract),
                5 => send_vectored_call!(f, 5, lens, sflags, zc, extract),
                _ => send_vectored_call!(f, 8, lens, sflags, zc, extract),
            };
            Call {
                name: format!("send_all_vectored({lens:?}, flags {sflag_bits:#x}){}{}", if zc { ".zc" } else { "" }, if extract { ".extract" } else { "" }),
                write: true,
                bounds: bounds_of(&lens),
                input,
                flags: sflag_bits,
                opcode: if zc { OP_SENDMSG_ZC } else { OP_SENDMSG },
                base_offset: 0,
                n: 0,
                init: Vec::new(),
                caps: Vec::new(),
                extract,
                pool: false,
                huge: None,
                task: task_,
            }
        }
        // ------------------------------------------------ read_n / recv_n
        8 | 9 => {
            let cap = 1 + tape::choose(site::BUF, 60) as usize;
            let ini = tape::choose(site::BUF, 4) as usize;
            let want = 1 + tape::choose(site::BUF, cap as u32) as usize;
            let use_pool = pool.is_some() && tape::choose(site::BUF, 4) == 3;
            let recv = which == 9;
            let init_bytes: Vec<u8> = (0..ini).map(|k| (0xA0 + k) as u8).collect();
            if use_pool {
                let p = pool.unwrap();
                let cap = kernel::with(|k| {
                    k.rings[0].pbufs.values().next().map_or(16, |p| p.entries as usize * 0 + 16)
                });
                let _ = cap;
                let buf = alloc::a10(|| p.get());
                let bcap = buf.capacity();
                let want = 1 + tape::choose(site::BUF, bcap as u32) as usize;
                let task_ = if recv {
                    let fut = alloc::a10(|| {
                        let r = f.recv_n(buf, want);
                        match rflags { Some(fl) => r.flags(fl), None => r }
                    });
                    task(fut, |o| io_err(o).map(|b| Val::BytesMulti(vec![b.as_slice().to_vec()])))
                } else {
                    let fut = alloc::a10(|| {
                        let r = f.read_n(buf, want);
                        match at { Some(o) => r.from(o), None => r }
                    });
                    task(fut, |o| io_err(o).map(|b| Val::BytesMulti(vec![b.as_slice().to_vec()])))
                };
                return Call {
                    name: format!("{}(pool ReadBuf, n={want})", if recv { "recv_n" } else { "read_n" }),
                    write: false,
                    input: Vec::new(),
                    bounds: vec![bcap],
                    flags: if recv { rflag_bits } else { 0 },
                    opcode: if recv { OP_RECV } else { OP_READ },
                    base_offset: if recv { 0 } else { at.unwrap_or(NO_OFFSET) },
                    n: want,
                    init: vec![Vec::new()],
                    caps: vec![bcap],
                    extract: false,
                    pool: true,
                    huge: None,
                    task: task_,
                };
            }
            let limited = tape::choose(site::BUF, 4) == 3;
            let buf = alloc::res(|| {
                let mut v = Vec::with_capacity(cap + ini);
                v.extend_from_slice(&init_bytes);
                v
            });
            let (caps, want) = if limited {
                let lim = 1 + tape::choose(site::BUF, cap as u32) as usize;
                (vec![lim], want.min(lim))
            } else {
                (vec![cap], want)
            };
            let task_: Box<dyn Pollable> = match (recv, limited) {
                (false, false) => {
                    let fut = alloc::a10(|| {
                        let r = f.read_n(buf, want);
                        match at { Some(o) => r.from(o), None => r }
                    });
                    task(fut, |o| io_err(o).map(|b| Val::BytesMulti(vec![b])))
                }
                (false, true) => {
                    let lb = buf.limit(caps[0]);
                    let fut = alloc::a10(|| {
                        let r = f.read_n(lb, want);
                        match at { Some(o) => r.from(o), None => r }
                    });
                    task(fut, |o| io_err(o).map(|b| Val::BytesMulti(vec![b.into_inner()])))
                }
                (true, false) => {
                    let fut = alloc::a10(|| {
                        let r = f.recv_n(buf, want);
                        match rflags { Some(fl) => r.flags(fl), None => r }
                    });
                    task(fut, |o| io_err(o).map(|b| Val::BytesMulti(vec![b])))
                }
                (true, true) => {
                    let lb = buf.limit(caps[0]);
                    let fut = alloc::a10(|| {
                        let r = f.recv_n(lb, want);
                        match rflags { Some(fl) => r.flags(fl), None => r }
                    });
                    task(fut, |o| io_err(o).map(|b| Val::BytesMulti(vec![b.into_inner()])))
                }
            };
            Call {
                name: format!(
                    "{}({}cap {}, n={want}){}",
                    if recv { "recv_n" } else { "read_n" },
                    if limited { "limited " } else { "" },
                    caps[0],
                    if !recv && at.is_some() { ".from" } else { "" }
                ),
                write: false,
                input: Vec::new(),
                bounds: caps.clone(),
                flags: if recv { rflag_bits } else { 0 },
                opcode: if recv { OP_RECV } else { OP_READ },
                base_offset: if recv { 0 } else { at.unwrap_or(NO_OFFSET) },
                n: want,
                init: vec![init_bytes],
                caps,
                extract: false,
                pool: false,
                huge: None,
                task: task_,
            }
        }
        // ------------------------------- read_n_vectored / recv_n_vectored
        _ => {
            let recv = which == 11;
            let caps = draw_lens(narr);
            let init_lens: Vec<usize> = (0..narr).map(|_| tape::choose(site::BUF, 3) as usize).collect();
            let total: usize = caps.iter().sum();
            let want = 1 + tape::choose(site::BUF, total as u32) as usize;
            let init: Vec<Vec<u8>> = (0..narr)
                .map(|i| (0..init_lens[i]).map(|k| (0xA0 + i * 3 + k) as u8).collect())
                .collect();
            let task_ = if recv {
                match narr {
                    1 => recv_vectored_call!(f, 1, caps, init_lens, want, rflags),
                    2 => recv_vectored_call!(f, 2, caps, init_lens, want, rflags),
                    3 => recv_vectored_call!(f, 3, caps, init_lens, want, rflags),
                    5 => recv_vectored_call!(f, 5, caps, init_lens, want, rflags),
                    _ => recv_vectored_call!(f, 8, caps, init_lens, want, rflags),
                }
            } else {
                match narr {
                    1 => read_vectored_call!(f, 1, caps, init_lens, want, at),
                    2 => read_vectored_call!(f, 2, caps, init_lens, want, at),
                    3 => read_vectored_call!(f, 3, caps, init_lens, want, at),
                    5 => read_vectored_call!(f, 5, caps, init_lens, want, at),
                    _ => read_vectored_call!(f, 8, caps, init_lens, want, at),
                }
            };
            Call {
                name: format!(
                    "{}(caps {caps:?}, n={want}){}",
                    if recv { "recv_n_vectored" } else { "read_n_vectored" },
                    if !recv && at.is_some() { ".from" } else { "" }
                ),
                write: false,
                input: Vec::new(),
                bounds: bounds_of(&caps),
                flags: if recv { rflag_bits } else { 0 },
                opcode: if recv { OP_RECVMSG } else { OP_READV },
                base_offset: if recv { 0 } else { at.unwrap_or(NO_OFFSET) },
                n: want,
                init,
                caps,
                extract: false,
                pool: false,
                huge: None,
                task: task_,
            }
        }
    }
}

/// Script the kernel's answers: a sequence of transfer sizes whose running
/// sum hits buffer boundaries now and then, with zeros, errors and
/// interruptions at low rates.
fn script_counts(total: usize, bounds: &[usize], intr: bool) -> Vec<i64> {
    let mut counts = Vec::new();
    let steps = tape::choose(site::LEN, 9);
    let mut acc = 0usize;
    for _ in 0..steps {
        if acc >= total {
            break;
        }
        let rem = total - acc;
        let c: i64 = match tape::choose(site::LEN, 12) {
            0 => 999_999,
            1 | 2 => {
                // Up to the next buffer boundary exactly.
                let next = bounds.iter().copied().find(|b| *b > acc).unwrap_or(total);
                stats::inc(C::probe_composite_boundary_split);
                (next - acc) as i64
            }
            3 => {
                if tape::chance(site::LEN, 1, 3) { 0 } else { 1 }
            }
            4 => {
                if intr {
                    -(i64::from(if tape::choose(site::ERRNO, 2) == 0 { libc::EINTR } else { libc::ECANCELED }))
                } else {
                    1
                }
            }
            5 => {
                if tape::chance(site::LEN, 1, 4) { -i64::from(libc::EIO) } else { 2 }
            }
            _ => 1 + i64::from(tape::choose(site::LEN, rem as u32)),
        };
        if c > 0 {
            acc += (c as usize).min(rem);
        }
        counts.push(c);
    }
    counts
}

fn is_interrupt(res: i32) -> bool {
    res == -libc::EINTR || res == -libc::ECANCELED
}

/// The primary (non-notification) result of a record.
fn primary(rec: &OpRecord) -> Option<i32> {
    rec.cqes.iter().find(|c| c.1 & CQE_F_NOTIF == 0).map(|c| c.0)
}

pub fn composite() {
    let intr = tape::chance(site::CFG, 1, 4);
    let sq = tape::pick(site::GEOM, &[4u32, 2, 1, 8]);
    kernel::with(|k| {
        k.cfg = KCfg {
            p_zc_notif_same_batch: tape::pick(site::CFG, &[50, 0, 100]),
            ..KCfg::default()
        };
    });
    // A quarter of the calls run on a direct descriptor.
    let direct = tape::chance(site::GEOM, 1, 4);
    let ring = alloc::a10(|| {
        let c = a10::Ring::config().with_submission_queue_size(sq);
        if direct { c.with_direct_descriptors(4).build() } else { c.build() }
    });
    let Ok(mut ring) = ring else {
        report::harness_error("ring build failed".to_string());
        return;
    };
    let sqh = alloc::a10(|| ring.sq());
    let mut w = std::mem::ManuallyDrop::new(World {
        ring: None,
        sq: sqh,
        fds: Vec::new(),
        pools: Vec::new(),
        direct_enabled: false,
        other: None,
        signals: Vec::new(),
    });
    let mut fd = w.new_fd();
    if direct {
        // Move the descriptor into the ring's table first; the call then runs
        // on the direct descriptor (the regular one stays open next to it).
        let made = ops::make(&mut w, ops::Kind::ToDirect, Some(fd), None, 0);
        let mut t = made.task;
        let wk = std::task::Waker::noop();
        let mut produced = Vec::new();
        let old = kernel::set_cur(90, During::Other);
        for _ in 0..12 {
            let mut cx = Context::from_waker(wk);
            if t.poll(&mut cx, &mut produced).is_ready() {
                break;
            }
            let _ = alloc::a10(|| ring.poll(Some(Duration::ZERO)));
            kernel::with(|k| {
                for kid in k.completable(0) {
                    k.complete_kid(0, kid, true);
                }
            });
            let _ = alloc::a10(|| ring.poll(Some(Duration::ZERO)));
        }
        kernel::set_cur(old.0, old.1);
        drop(t);
        for p in produced {
            if let crate::exec::Produced::Fd(d) = p {
                fd = w.add_fd(d);
                stats::inc(C::probe_composite_direct);
            }
        }
    }
    let fdnum = ops::fd_num(w.fd_ref(fd)).0;
    let pool = if tape::chance(site::GEOM, 1, 3) {
        alloc::a10(|| ReadBufPool::new(w.sq.clone(), 2, 16)).ok()
    } else {
        None
    };
    let mut call = make_call(&w, fd, pool.as_ref());
    let input_len = call.huge.unwrap_or(call.input.len());
    let total = if call.write { input_len } else { call.caps.iter().sum() };
    let counts = script_counts(total, &call.bounds, intr);
    ev!("h composite {} counts {:?}", call.name, counts);
    trace(&[tag::CREATE, u32::from(call.opcode), call.bounds.len() as u32, u32::from(call.base_offset != NO_OFFSET)]);
    kernel::with(|k| {
        k.counts.insert(fdnum, counts.iter().copied().collect());
    });

    // Drive it with the strict executor.
    let mut wakers = TaskWakers::new(0);
    let mut out: Option<Out> = None;
    let mut polled = false;
    for _round in 0..80 {
        if !polled || wakers.fired() {
            wakers.clear();
            let wk = wakers.waker();
            let mut cx = Context::from_waker(&wk);
            let old = kernel::set_cur(0, During::Poll);
            let r = call.task.poll(&mut cx);
            kernel::set_cur(old.0, old.1);
            polled = true;
            if let Poll::Ready(o) = r {
                ev!("h {} -> {o:?}", call.name);
                out = Some(o);
                break;
            }
            ev!("h poll -> Pending");
        }
        // Kernel: consume and complete everything.
        let _ = alloc::a10(|| ring.poll(Some(Duration::ZERO)));
        kernel::with(|k| {
            for kid in k.completable(0) {
                k.complete_kid(0, kid, true);
                if k.rings[0].inflight_kids().contains(&kid) {
                    k.finish_with(0, kid, 0);
                }
            }
        });
        let _ = alloc::a10(|| ring.poll(Some(Duration::ZERO)));
    }

    // ------------------------------------------------------------- oracle
    let recs: Vec<OpRecord> = kernel::with(|k| {
        k.records
            .iter()
            .filter(|r| r.by_op == 0 && r.during == During::Poll)
            .cloned()
            .collect()
    });
    let name = call.name.clone();
    let mut acc = 0usize;
    let mut expected: Option<Out> = None;
    let mut appended: Vec<u8> = Vec::new();
    let mut prev_interrupted = false;
    let mut prev_sqe: Option<Sqe> = None;
    for (i, rec) in recs.iter().enumerate() {
        if expected.is_some() {
            violation(
                "io.stream-mismatch",
                format!("{name}: request #{i} issued after the call was already decided"),
            );
            break;
        }
        if i > 0 {
            stats::inc(C::probe_composite_continuation);
        }
        if rec.opcode != call.opcode {
            violation(
                "io.flags",
                format!("{name}: request #{i} uses {} instead of {}", op_name(rec.opcode), op_name(call.opcode)),
            );
        }
        let is_sock = matches!(call.opcode, OP_SEND | OP_SEND_ZC | OP_SENDMSG | OP_SENDMSG_ZC | OP_RECV | OP_RECVMSG);
        if is_sock {
            if rec.flags_seen != call.flags {
                violation(
                    "io.flags",
                    format!(
                        "{name}: request #{i} carries flags {:#x}, the caller chose {:#x}",
                        rec.flags_seen, call.flags
                    ),
                );
            }
        } else {
            let want_off = if call.base_offset == NO_OFFSET { NO_OFFSET } else { call.base_offset + acc as u64 };
            if rec.offset_seen != want_off {
                violation(
                    "io.offset",
                    format!(
                        "{name}: request #{i} at offset {} after {acc} bytes, expected {}",
                        rec.offset_seen as i64, want_off as i64
                    ),
                );
            }
        }
        if prev_interrupted {
            if prev_sqe != Some(rec.sqe) {
                violation(
                    "restart.sqe-differs",
                    format!("{name}: request #{i} re-issued after an interruption differs from the interrupted one"),
                );
            }
            stats::inc(C::probe_restart_taken);
        }
        let remaining = if call.write { input_len - acc } else { call.caps.iter().sum::<usize>() - acc };
        let selects = rec.sqe.flags() & SQE_BUFFER_SELECT != 0;
        if !selects && rec.described != remaining {
            violation(
                "io.stream-mismatch",
                format!(
                    "{name}: request #{i} describes {} bytes after {acc} were transferred, {remaining} remain",
                    rec.described
                ),
            );
        }
        let Some(res) = primary(rec) else {
            // Never completed (only if the loop gave up).
            break;
        };
        // The history of transfers is part of the abstract trace.
        trace(&[tag::OUT, rec.described as u32, res as u32]);
        prev_interrupted = is_interrupt(res);
        prev_sqe = Some(rec.sqe);
        if prev_interrupted {
            continue;
        }
        if res < 0 {
            expected = Some(Err(if -res == libc::EINVAL { KIND_UNSUPPORTED } else { -res }));
            continue;
        }
        let n = res as usize;
        if call.write {
            if call.huge.is_none() && rec.taken != call.input[acc..(acc + n).min(call.input.len())] {
                violation(
                    "io.stream-mismatch",
                    format!(
                        "{name}: request #{i} handed the kernel {:?} where the input has {:?}",
                        rec.taken,
                        &call.input[acc..(acc + n).min(call.input.len())]
                    ),
                );
            }
            if n == 0 {
                expected = Some(Err(KIND_WRITE_ZERO));
                continue;
            }
            acc += n;
            if acc >= input_len {
                expected = Some(Ok(Val::Unit));
            }
        } else {
            let data: Vec<u8> = rec.wrote.iter().flatten().copied().collect();
            if n == 0 {
                expected = Some(Err(KIND_UNEXPECTED_EOF));
                continue;
            }
            appended.extend_from_slice(&data);
            acc += n;
            if acc >= call.n {
                // Distribute over the buffers front to back.
                let mut bufs = call.init.clone();
                let mut off = 0;
                for (b, cap) in bufs.iter_mut().zip(&call.caps) {
                    let take = (*cap).min(appended.len() - off);
                    b.extend_from_slice(&appended[off..off + take]);
                    off += take;
                }
                expected = Some(Ok(Val::BytesMulti(bufs)));
            }
        }
    }
    match (&out, &expected) {
        (None, _) => {
            if !report::has_violation() {
                violation(
                    "io.stuck",
                    format!("{name}: never resolved although the kernel completed every request ({} requests)", recs.len()),
                );
            }
        }
        (Some(got), None) => {
            let ok_early = got.is_ok();
            violation(
                if ok_early { "io.early-ok" } else { "io.wrong-error" },
                format!(
                    "{name}: resolved with {got:?} after {acc} of {} bytes although the kernel has not finished the stream",
                    if call.write { input_len } else { call.n }
                ),
            );
        }
        (Some(got), Some(want)) => {
            let matches = match (got, want) {
                (Ok(_), Ok(Val::Unit)) if call.write => {
                    // Extract variants return the caller's buffers.
                    if call.extract {
                        let flat: Vec<u8> = match got {
                            Ok(Val::BytesMulti(b)) => b.iter().flatten().copied().collect(),
                            _ => Vec::new(),
                        };
                        flat == call.input
                    } else {
                        *got == Ok(Val::Unit)
                    }
                }
                _ => got == want,
            };
            if !matches {
                let class = match (got, want) {
                    (Ok(_), Err(_)) => "io.early-ok",
                    (Err(_), _) => "io.wrong-error",
                    _ => "io.stream-mismatch",
                };
                violation(class, format!("{name}: resolved with {got:?}, the kernel-side history implies {want:?}"));
            }
        }
    }
    if call.pool && !report::has_violation() {
        stats::inc(C::probe_pool_second_read);
    }

    // Tear down.
    drop(call);
    drop(out);
    let World { sq, fds, .. } = std::mem::ManuallyDrop::into_inner(std::mem::replace(
        &mut w,
        std::mem::ManuallyDrop::new(World {
            ring: None,
            sq: alloc::a10(|| ring.sq()),
            fds: Vec::new(),
            pools: Vec::new(),
            direct_enabled: false,
            other: None,
            signals: Vec::new(),
        }),
    ));
    alloc::a10(|| {
        drop(fds);
        drop(pool);
        drop(sq);
    });
    let w2 = std::mem::ManuallyDrop::into_inner(w);
    alloc::a10(|| {
        drop(w2);
        drop(ring);
    });
    for v in alloc::take_violations() {
        violation(v.class, v.detail);
    }
}
