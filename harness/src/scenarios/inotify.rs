//! `inotify` (C17): filesystem-watch event streams are decoded exactly, and
//! every event handed out stays valid for as long as safe code can use it.

use std::path::PathBuf;
use std::pin::Pin;
use std::sync::OnceLock;
use std::task::{Context, Poll};
use std::time::Duration;

use a10::fs::notify::{Interest, Recursive, Watcher};

use crate::exec::TaskWakers;
use crate::kernel::{self, During, KCfg};
use crate::report::{self, tag, trace, violation};
use crate::stats::{self, C};
use crate::tape::{self, site};
use crate::{alloc, ev};

const IN_IGNORED: u32 = 0x8000;
const IN_Q_OVERFLOW: u32 = 0x4000;
const BUF_SIZE: usize = 16 + 255 + 1;

/// Scratch entries of this process: three directories, two files and a hard
/// link to each file (watching a link yields the watch descriptor of the
/// file: same inode).
fn scratch() -> &'static Vec<PathBuf> {
    static DIRS: OnceLock<Vec<PathBuf>> = OnceLock::new();
    DIRS.get_or_init(|| {
        let base = std::env::temp_dir().join(format!("a10sim-{}", std::process::id()));
        let mut all: Vec<PathBuf> = (0..3)
            .map(|i| {
                // One of the directories has a name that is not UTF-8.
                let d = if i == 2 {
                    use std::os::unix::ffi::OsStrExt;
                    base.join(std::ffi::OsStr::from_bytes(b"w2-caf\xe9"))
                } else {
                    base.join(format!("w{i}"))
                };
                std::fs::create_dir_all(&d).expect("scratch dir");
                d
            })
            .collect();
        for i in 0..2 {
            let f = base.join(format!("f{i}.txt"));
            std::fs::write(&f, b"x").expect("scratch file");
            let l = base.join(format!("l{i}.txt"));
            let _ = std::fs::remove_file(&l);
            std::fs::hard_link(&f, &l).expect("scratch link");
            all.push(f);
            all.push(l);
        }
        all
    })
}

pub fn cleanup() {
    let base = std::env::temp_dir().join(format!("a10sim-{}", std::process::id()));
    let _ = std::fs::remove_dir_all(base);
}

#[derive(Clone, Debug)]
struct Record {
    wd: i32,
    mask: u32,
    cookie: u32,
    name: Vec<u8>,
    pad: usize,
}

impl Record {
    fn bytes(&self) -> Vec<u8> {
        let mut v = Vec::new();
        v.extend_from_slice(&self.wd.to_ne_bytes());
        v.extend_from_slice(&self.mask.to_ne_bytes());
        v.extend_from_slice(&self.cookie.to_ne_bytes());
        v.extend_from_slice(&((self.name.len() + self.pad) as u32).to_ne_bytes());
        v.extend_from_slice(&self.name);
        v.extend(std::iter::repeat_n(0u8, self.pad));
        v
    }
}

fn draw_record(nwatches: i32) -> Record {
    let wd = match tape::choose(site::DATA, 6) {
        5 => 90 + tape::choose(site::DATA, 5) as i32, // unknown watch descriptor
        n => 1 + (n as i32 % nwatches),
    };
    let mask = match tape::choose(site::DATA, 8) {
        0 => 0x100,               // IN_CREATE
        1 => 0x2,                 // IN_MODIFY
        2 => 0x4000_0000 | 0x100, // IN_ISDIR | IN_CREATE
        3 => IN_IGNORED,
        4 => IN_Q_OVERFLOW,
        5 => 0x400,               // IN_DELETE_SELF
        6 => 1 << tape::choose(site::DATA, 14), // includes IN_UNMOUNT (0x2000)
        _ => 0x200 | 0x40,        // IN_DELETE | IN_MOVED_FROM
    };
    let name_len = match tape::choose(site::DATA, 8) {
        0 | 1 => 0,
        2 => 255,
        3 => 1,
        4 => 16 * (1 + tape::choose(site::DATA, 3) as usize),
        5 => 15,
        _ => 1 + tape::choose(site::DATA, 40) as usize,
    };
    let name: Vec<u8> = (0..name_len)
        .map(|i| b'a' + ((i + wd as usize + mask as usize) % 26) as u8)
        .collect();
    // The kernel pads the name with NULs to a multiple of the header size
    // (at least one NUL); events without a name have len 0.
    let mut pad = if name_len == 0 { 0 } else { (name_len + 1).div_ceil(16) * 16 - name_len };
    // Well-formed without any padding NUL as well: the name fills its field
    // (the property's range is 0..15 padding NULs); records stay 16-aligned.
    if name_len > 0 && name_len % 16 == 0 && tape::chance(site::DATA, 1, 2) {
        pad = 0;
    }
    Record {
        wd,
        mask,
        cookie: tape::choose(site::DATA, 3),
        name,
        pad,
    }
}

#[derive(Debug)]
struct Seen {
    mask: u32,
    name: Vec<u8>,
    path: PathBuf,
    /// Compare the path byte for byte (else as paths: "dir/" == "dir").
    exact: bool,
}

impl PartialEq for Seen {
    fn eq(&self, other: &Seen) -> bool {
        use std::os::unix::ffi::OsStrExt;
        self.mask == other.mask
            && self.name == other.name
            && self.path == other.path
            && (!(self.exact || other.exact) || self.path.as_os_str().as_bytes() == other.path.as_os_str().as_bytes())
    }
}

fn parse_mask(dbg: &str) -> u32 {
    dbg.split("mask: ")
        .nth(1)
        .and_then(|r| r.split(',').next())
        .and_then(|n| n.trim().parse().ok())
        .unwrap_or(u32::MAX)
}

pub fn inotify() {
    kernel::with(|k| k.cfg = KCfg::default());
    let ring = alloc::a10(|| a10::Ring::config().with_submission_queue_size(4).build());
    let Ok(mut ring) = ring else {
        report::harness_error("ring build failed".to_string());
        return;
    };
    let sq = alloc::a10(|| ring.sq());
    // The number of inotify instances per user is limited and instances being
    // torn down still count: wait (real time, never part of the run) and retry.
    let mut watcher = alloc::a10(|| Watcher::new(sq.clone()));
    let mut tries = 0;
    while watcher.as_ref().is_err_and(|e| e.raw_os_error() == Some(libc::EMFILE)) && tries < 2000 {
        std::thread::sleep(Duration::from_millis(2));
        watcher = alloc::a10(|| Watcher::new(sq.clone()));
        tries += 1;
    }
    let Ok(mut watcher) = watcher else {
        report::harness_error("inotify_init1 failed".to_string());
        return;
    };
    // The real descriptor number (only visible through Debug).
    let dbg = format!("{watcher:?}");
    let ifd: i32 = dbg
        .split("fd: ")
        .nth(2)
        .or_else(|| dbg.split("fd: ").nth(1))
        .and_then(|r| r.split(',').next())
        .and_then(|n| n.trim().parse().ok())
        .unwrap_or(-1);
    kernel::with(|k| k.foreign_fds.push(ifd));
    let entries = scratch();
    // Watches: directories, files, and links to files (a link re-registers the
    // watch descriptor of its file under another path; the newest path wins).
    // Model: watch descriptors are handed out 1, 2, ... per instance.
    let mut watching: Vec<(i32, PathBuf, bool)> = Vec::new(); // (wd, path, is a file)
    let mut inode_wd: std::collections::BTreeMap<usize, i32> = std::collections::BTreeMap::new();
    let mut want_mask: std::collections::BTreeMap<i32, u32> = std::collections::BTreeMap::new();
    let nreg = 1 + tape::choose(site::GEOM, 4) as usize;
    for _ in 0..nreg {
        // 0..3: directories, 3/4: file 0 and its link, 5/6: file 1 and its link.
        let e = match tape::choose(site::GEOM, 8) {
            0 | 1 | 2 => tape::choose(site::GEOM, 3) as usize,
            n => n as usize - 3 + 3,
        }
        .min(entries.len() - 1);
        let path = entries[e].clone();
        let is_file = e >= 3;
        let inode = if is_file { 3 + (e - 3) / 2 } else { e };
        // What the caller is interested in (the kernel combines the interests
        // of repeated registrations of one inode: IN_MASK_ADD).
        let (interest, bits) = match tape::choose(site::GEOM, 6) {
            0 => (Interest::ALL, 0xfffu32),
            1 => (Interest::MODIFY, 0x2),
            2 => (Interest::OPEN, 0x20),
            3 => (Interest::CLOSE_WRITE, 0x8),
            4 => (Interest::CREATE | Interest::DELETE, 0x300),
            _ => (Interest::METADATA, 0x4),
        };
        let res = if is_file {
            alloc::a10(|| watcher.watch_file(path.clone(), interest))
        } else {
            alloc::a10(|| watcher.watch_directory(path.clone(), interest, Recursive::No))
        };
        if let Err(e) = res {
            report::harness_error(format!("watch: {e}"));
            return;
        }
        let next = inode_wd.len() as i32 + 1;
        let wd = *inode_wd.entry(inode).or_insert(next);
        *want_mask.entry(wd).or_insert(0) |= bits;
        if let Some(w) = watching.iter_mut().find(|(w, _, _)| *w == wd) {
            if w.1 != path {
                stats::inc(C::probe_inotify_rewatch);
            }
            w.1 = path;
        } else {
            watching.push((wd, path, is_file));
        }
    }
    let nwatches = inode_wd.len();
    // What the kernel really watches, per watch descriptor (fdinfo of the
    // inotify instance): the union of the interests registered for it.
    if let Ok(info) = std::fs::read_to_string(format!("/proc/self/fdinfo/{ifd}")) {
        let mut have: std::collections::BTreeMap<i32, u32> = std::collections::BTreeMap::new();
        for line in info.lines().filter(|l| l.starts_with("inotify ")) {
            let field = |key: &str| line.split_whitespace().find_map(|w| w.strip_prefix(key).map(str::to_string));
            let wd = field("wd:").and_then(|v| v.parse::<i32>().ok());
            let mask = field("mask:").and_then(|v| u32::from_str_radix(&v, 16).ok());
            if let (Some(wd), Some(mask)) = (wd, mask) {
                have.insert(wd, mask & 0xfff);
            }
        }
        if have != want_mask {
            violation(
                "notify.watch-mask",
                format!(
                    "the kernel watches {have:x?} (watch descriptor -> event bits), the registrations made ask for {want_mask:x?}"
                ),
            );
        }
    }

    // ------------------------------------------------------------ script
    let nrec = tape::choose(site::DATA, 10) as usize;
    let records: Vec<Record> = (0..nrec).map(|_| draw_record(nwatches as i32)).collect();
    // Batch whole records into reads.
    let mut reads: Vec<Vec<u8>> = Vec::new();
    let mut cur: Vec<u8> = Vec::new();
    for r in &records {
        let b = r.bytes();
        if !cur.is_empty() && (cur.len() + b.len() > BUF_SIZE || tape::choose(site::DATA, 3) == 0) {
            reads.push(std::mem::take(&mut cur));
        }
        cur.extend_from_slice(&b);
    }
    if !cur.is_empty() {
        reads.push(cur);
    }
    if reads.len() > 1 {
        stats::inc(C::probe_inotify_multi_read);
        report::nontrivial();
    }
    let ending = tape::choose(site::DATA, 3); // 0: empty read, 1: error, 2: keep pending
    ev!("h inotify {} records in {} reads, ending {ending}", records.len(), reads.len());
    trace(&[tag::CREATE, records.len() as u32, reads.len() as u32, ending]);
    for r in &records {
        trace(&[tag::OUT, r.mask, r.name.len() as u32, r.pad as u32, r.wd as u32]);
    }
    kernel::with(|k| {
        let mut q: std::collections::VecDeque<Vec<u8>> = reads.iter().cloned().collect();
        if ending == 0 {
            q.push_back(Vec::new());
        }
        k.scripts.insert(ifd, q);
        let mut counts = std::collections::VecDeque::new();
        for _ in 0..reads.len() {
            counts.push_back(999_999);
        }
        match ending {
            0 => counts.push_back(999_999),
            1 => counts.push_back(-i64::from(libc::EIO)),
            _ => {}
        }
        k.counts.insert(ifd, counts);
    });

    // Expected user-visible events.
    let mut expected: Vec<Seen> = Vec::new();
    for r in &records {
        if r.mask & IN_IGNORED != 0 {
            watching.retain(|(wd, _, _)| *wd != r.wd);
            continue;
        }
        if r.mask & IN_Q_OVERFLOW != 0 {
            continue;
        }
        let name_os = std::ffi::OsStr::from_bytes_lossy_verif(&r.name);
        let entry = watching.iter().find(|(wd, _, _)| *wd == r.wd);
        let path = match entry {
            Some((_, p, _)) if r.name.is_empty() => p.clone(),
            Some((_, p, _)) => p.join(&name_os),
            None => PathBuf::from(&name_os),
        };
        expected.push(Seen {
            mask: r.mask,
            name: r.name.clone(),
            path,
            // An event on a watched file itself: its path must be the file's
            // path byte for byte ("file.txt/" names nothing).
            exact: r.name.is_empty() && entry.is_some_and(|e| e.2),
        });
    }

    // ------------------------------------------------------------ consume
    // Swarm switch: in half of the runs no reference is kept, so the known
    // lifetime finding cannot mask anything else there.
    let hold = tape::chance(site::CFG, 1, 2);
    let mut seen: Vec<Seen> = Vec::new();
    let mut ended = false;
    let mut errored = false;
    {
        let mut events = alloc::a10(|| watcher.events());
        let mut wakers = TaskWakers::new(0);
        let mut polled = false;
        let mut last_item = false;
        for _round in 0..64 {
            if !polled || last_item || wakers.fired() {
                wakers.clear();
                let wk = wakers.waker();
                let mut cx = Context::from_waker(&wk);
                let old = kernel::set_cur(0, During::Poll);
                // SAFETY: `events` is not moved while polled.
                let r = alloc::a10(|| unsafe { Pin::new_unchecked(&mut events) }.poll_next(&mut cx));
                kernel::set_cur(old.0, old.1);
                polled = true;
                last_item = false;
                match r {
                    Poll::Ready(Some(Ok(event))) => {
                        last_item = true;
                        // Use the event right now (it is certainly valid now).
                        let dbg = format!("{event:?}");
                        #[allow(deprecated)]
                        let name = std::os::unix::ffi::OsStrExt::as_bytes(event.file_path().as_os_str()).to_vec();
                        let path = events.path_for(event).into_owned();
                        let addr = std::ptr::from_ref(event).cast::<u8>() as usize;
                        let size = std::mem::size_of_val(event);
                        ev!("h event mask={:#x} name_len={} ", parse_mask(&dbg), name.len());
                        seen.push(Seen { mask: parse_mask(&dbg), name, path, exact: false });
                        // Safe code may keep the reference (`&'w Event`) for as
                        // long as the watcher is borrowed: across later polls
                        // and across dropping the iterator.
                        if hold && tape::choose(site::DATA, 3) == 0 {
                            stats::inc(C::probe_inotify_event_held);
                            report::nontrivial();
                            let what = format!("event #{} handed out earlier", seen.len() - 1);
                            kernel::with(|k| k.held_ranges.push((addr, size, what.clone())));
                            alloc::watch(
                                addr,
                                "notify.event-freed",
                                format!("the memory of {what} was freed while safe code can still use the reference"),
                            );
                        }
                        // The bytes a10 read must lie inside what the kernel wrote.
                        let inside = kernel::with(|k| {
                            k.records.iter().rev().find(|r| r.by_op == 0).is_some_and(|r| {
                                let base = r.regions.first().map_or(0, |g| g.addr);
                                let n = r.cqes.last().map_or(0, |c| c.0.max(0)) as usize;
                                addr >= base && addr + size <= base + n
                            })
                        });
                        if !inside {
                            violation(
                                "notify.bounds",
                                format!("event #{} lies outside the bytes the kernel wrote", seen.len() - 1),
                            );
                        }
                        continue;
                    }
                    Poll::Ready(Some(Err(e))) => {
                        ev!("h events error {e}");
                        errored = true;
                        last_item = true;
                        continue;
                    }
                    Poll::Ready(None) => {
                        ended = true;
                        break;
                    }
                    Poll::Pending => {}
                }
            }
            let _ = alloc::a10(|| ring.poll(Some(Duration::ZERO)));
            let more = kernel::with(|k| {
                let scripted = k.counts.get(&ifd).is_some_and(|q| !q.is_empty());
                if scripted {
                    for kid in k.completable(0) {
                        k.complete_kid(0, kid, true);
                    }
                }
                scripted
            });
            let _ = alloc::a10(|| ring.poll(Some(Duration::ZERO)));
            if !more && !wakers.fired() {
                break;
            }
        }
        // The iterator goes away; references handed out may still be held.
        alloc::a10(|| drop(events));
    }
    for v in alloc::take_violations() {
        violation(v.class, v.detail);
    }
    // Now the borrow of the watcher ends: nothing is held any more.
    alloc::unwatch_all();
    kernel::with(|k| k.held_ranges.clear());

    // ------------------------------------------------------------- oracle
    if seen.len() > expected.len() || seen[..] != expected[..seen.len()] {
        let first = seen.iter().zip(expected.iter()).position(|(a, b)| a != b).unwrap_or(expected.len());
        violation(
            "notify.sequence",
            format!(
                "event #{first}: yielded {:?}, the scripted records give {:?} ({} yielded, {} expected)",
                seen.get(first),
                expected.get(first),
                seen.len(),
                expected.len()
            ),
        );
    } else if seen.len() < expected.len() && (ending != 2 || ended) && !errored {
        violation(
            "notify.sequence",
            format!("only {} of {} scripted events were yielded", seen.len(), expected.len()),
        );
    }
    if ending == 0 && !ended {
        violation("notify.sequence", "the stream ended (empty read) but the iterator did not".to_string());
    }
    if ending == 1 && !errored {
        violation("notify.sequence", "the read error was not reported".to_string());
    }

    alloc::a10(|| {
        drop(watcher);
        drop(sq);
        drop(ring);
    });
    for v in alloc::take_violations() {
        violation(v.class, v.detail);
    }
}

trait OsStrVerif {
    fn from_bytes_lossy_verif(b: &[u8]) -> std::ffi::OsString;
}

impl OsStrVerif for std::ffi::OsStr {
    fn from_bytes_lossy_verif(b: &[u8]) -> std::ffi::OsString {
        use std::os::unix::ffi::OsStringExt;
        std::ffi::OsString::from_vec(b.to_vec())
    }
}
