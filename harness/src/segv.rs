//! Guard pages and the SIGSEGV/SIGBUS handler: touching unmapped ring memory
//! or a poisoned completion slot is reported instead of corrupting the run.

use std::sync::atomic::{AtomicU64, AtomicUsize, Ordering};

const MAX_RANGES: usize = 256;
static LO: [AtomicUsize; MAX_RANGES] = [const { AtomicUsize::new(0) }; MAX_RANGES];
static HI: [AtomicUsize; MAX_RANGES] = [const { AtomicUsize::new(0) }; MAX_RANGES];
static POISON: AtomicUsize = AtomicUsize::new(0);
pub static RUN_INDEX: AtomicU64 = AtomicU64::new(0);

const MAX_STACKS: usize = 64;
static SLO: [AtomicUsize; MAX_STACKS] = [const { AtomicUsize::new(0) }; MAX_STACKS];
static SHI: [AtomicUsize; MAX_STACKS] = [const { AtomicUsize::new(0) }; MAX_STACKS];

pub fn add_range(lo: usize, hi: usize) {
    for i in 0..MAX_RANGES {
        if LO[i]
            .compare_exchange(0, lo, Ordering::AcqRel, Ordering::Relaxed)
            .is_ok()
        {
            HI[i].store(hi, Ordering::Release);
            return;
        }
    }
    panic!("too many guarded ranges");
}

pub fn remove_range(lo: usize) {
    for i in 0..MAX_RANGES {
        if LO[i].load(Ordering::Acquire) == lo {
            HI[i].store(0, Ordering::Release);
            LO[i].store(0, Ordering::Release);
            return;
        }
    }
}

pub fn in_guard(addr: usize) -> bool {
    let p = POISON.load(Ordering::Relaxed);
    if p != 0 && addr >= p && addr < p + 4096 {
        return true;
    }
    (0..MAX_RANGES).any(|i| {
        let lo = LO[i].load(Ordering::Acquire);
        lo != 0 && addr >= lo && addr < HI[i].load(Ordering::Acquire)
    })
}

/// A page nobody may touch; its address is the `user_data` of poisoned
/// completion slots.
pub fn poison_page() -> usize {
    let p = POISON.load(Ordering::Acquire);
    if p != 0 {
        return p;
    }
    let page = unsafe {
        libc::mmap(
            std::ptr::null_mut(),
            4096,
            libc::PROT_NONE,
            libc::MAP_PRIVATE | libc::MAP_ANONYMOUS,
            -1,
            0,
        )
    };
    assert!(page != libc::MAP_FAILED);
    POISON.store(page as usize, Ordering::Release);
    page as usize
}

/// Register the stack of the calling thread.
pub fn register_stack() {
    unsafe {
        let mut attr: libc::pthread_attr_t = std::mem::zeroed();
        if libc::pthread_getattr_np(libc::pthread_self(), &mut attr) != 0 {
            return;
        }
        let mut addr: *mut libc::c_void = std::ptr::null_mut();
        let mut size: usize = 0;
        libc::pthread_attr_getstack(&attr, &mut addr, &mut size);
        libc::pthread_attr_destroy(&mut attr);
        let lo = addr as usize;
        for i in 0..MAX_STACKS {
            if SLO[i].load(Ordering::Acquire) == lo {
                return;
            }
        }
        for i in 0..MAX_STACKS {
            if SLO[i]
                .compare_exchange(0, lo, Ordering::AcqRel, Ordering::Relaxed)
                .is_ok()
            {
                SHI[i].store(lo + size, Ordering::Release);
                return;
            }
        }
    }
}

pub fn unregister_stack() {
    unsafe {
        let mut attr: libc::pthread_attr_t = std::mem::zeroed();
        if libc::pthread_getattr_np(libc::pthread_self(), &mut attr) != 0 {
            return;
        }
        let mut addr: *mut libc::c_void = std::ptr::null_mut();
        let mut size: usize = 0;
        libc::pthread_attr_getstack(&attr, &mut addr, &mut size);
        libc::pthread_attr_destroy(&mut attr);
        let lo = addr as usize;
        for i in 0..MAX_STACKS {
            if SLO[i].load(Ordering::Acquire) == lo {
                SHI[i].store(0, Ordering::Release);
                SLO[i].store(0, Ordering::Release);
            }
        }
    }
}

pub fn in_stack(addr: usize) -> bool {
    (0..MAX_STACKS).any(|i| {
        let lo = SLO[i].load(Ordering::Acquire);
        lo != 0 && addr >= lo && addr < SHI[i].load(Ordering::Acquire)
    })
}

fn write_all(mut s: &[u8]) {
    while !s.is_empty() {
        let n = unsafe { libc::write(1, s.as_ptr().cast(), s.len()) };
        if n <= 0 {
            break;
        }
        s = &s[n as usize..];
    }
}

fn write_num(mut n: u64) {
    let mut buf = [0u8; 20];
    let mut i = buf.len();
    if n == 0 {
        i -= 1;
        buf[i] = b'0';
    }
    while n > 0 {
        i -= 1;
        buf[i] = b'0' + (n % 10) as u8;
        n /= 10;
    }
    write_all(&buf[i..]);
}

extern "C" fn handler(sig: libc::c_int, info: *mut libc::siginfo_t, _ctx: *mut libc::c_void) {
    // Async-signal-safe only.
    let addr = unsafe { (*info).si_addr() } as usize;
    let p = POISON.load(Ordering::Relaxed);
    let class: &[u8] = if sig == libc::SIGABRT || sig == libc::SIGILL {
        // abort(): a panic that cannot unwind (e.g. the misaligned-pointer
        // check), a double panic, or the allocator giving up.
        b"abort"
    } else if p != 0 && addr >= p && addr < p + 4096 {
        b"cq.poison-read"
    } else if in_guard(addr) {
        b"teardown.segv"
    } else {
        b"segv.other"
    };
    write_all(b"\nSEGV class=");
    write_all(class);
    write_all(b" run=");
    write_num(RUN_INDEX.load(Ordering::Relaxed));
    write_all(b"\n");
    unsafe { libc::_exit(86) };
}

extern "C" fn term_handler(_sig: libc::c_int) {
    // The orchestrator's watchdog: tell it which run hangs.
    write_all(b"\nHUNG run=");
    write_num(RUN_INDEX.load(Ordering::Relaxed));
    write_all(b"\n");
    unsafe { libc::_exit(87) };
}

pub fn install_handler() {
    unsafe {
        let mut sa: libc::sigaction = std::mem::zeroed();
        sa.sa_sigaction = term_handler as *const () as usize;
        libc::sigemptyset(&mut sa.sa_mask);
        libc::sigaction(libc::SIGTERM, &sa, std::ptr::null_mut());
    }
    unsafe {
        // Alternate stack so a stack overflow is reported too.
        let size = 64 * 1024;
        let stack = libc::mmap(
            std::ptr::null_mut(),
            size,
            libc::PROT_READ | libc::PROT_WRITE,
            libc::MAP_PRIVATE | libc::MAP_ANONYMOUS,
            -1,
            0,
        );
        let ss = libc::stack_t {
            ss_sp: stack,
            ss_flags: 0,
            ss_size: size,
        };
        libc::sigaltstack(&ss, std::ptr::null_mut());
        let mut sa: libc::sigaction = std::mem::zeroed();
        sa.sa_sigaction = handler as *const () as usize;
        sa.sa_flags = libc::SA_SIGINFO | libc::SA_ONSTACK;
        libc::sigemptyset(&mut sa.sa_mask);
        libc::sigaction(libc::SIGSEGV, &sa, std::ptr::null_mut());
        libc::sigaction(libc::SIGBUS, &sa, std::ptr::null_mut());
        libc::sigaction(libc::SIGABRT, &sa, std::ptr::null_mut());
        libc::sigaction(libc::SIGILL, &sa, std::ptr::null_mut());
    }
}
