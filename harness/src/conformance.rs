//! Conformance of the simulated kernel: the same raw-syscall scripts are run
//! against the real io_uring of this machine and against the stub, and the
//! observations (return values, completions) are compared.

use std::ffi::{c_int, c_void};

use crate::abi::*;
use crate::kernel;

trait Sys {
    fn name(&self) -> &'static str;
    fn setup(&mut self, entries: u32, p: &mut Params) -> c_int;
    fn enter(&mut self, fd: c_int, to_submit: u32, min: u32, flags: u32, arg: *const c_void, sz: usize) -> c_int;
    fn register(&mut self, fd: c_int, op: u32, arg: *const c_void, nr: u32) -> c_int;
    fn mmap(&mut self, len: usize, fd: c_int, off: i64) -> *mut u8;
    fn munmap(&mut self, addr: *mut u8, len: usize);
    fn close_ring(&mut self, fd: c_int);
    /// A descriptor a READ never completes on / completes with scripted data.
    fn pipe(&mut self) -> (c_int, c_int);
    fn write(&mut self, wfd: c_int, rfd: c_int, data: &[u8]);
    fn close_write(&mut self, wfd: c_int, rfd: c_int);
    /// Let the kernel finish what it can (the real kernel does so by itself).
    fn settle(&mut self, ring_fd: c_int);
    fn close_fd(&mut self, fd: c_int);
}

fn errno() -> c_int {
    unsafe { *libc::__errno_location() }
}

fn ret(r: c_int) -> c_int {
    if r < 0 { -errno() } else { r }
}

struct Real;

impl Sys for Real {
    fn name(&self) -> &'static str {
        "real"
    }
    fn setup(&mut self, entries: u32, p: &mut Params) -> c_int {
        ret(unsafe { libc::syscall(libc::SYS_io_uring_setup, entries as libc::c_long, std::ptr::from_mut(p)) } as c_int)
    }
    fn enter(&mut self, fd: c_int, to_submit: u32, min: u32, flags: u32, arg: *const c_void, sz: usize) -> c_int {
        ret(unsafe {
            libc::syscall(
                libc::SYS_io_uring_enter,
                fd as libc::c_long,
                to_submit as libc::c_long,
                min as libc::c_long,
                flags as libc::c_long,
                arg,
                sz as libc::c_long,
            )
        } as c_int)
    }
    fn register(&mut self, fd: c_int, op: u32, arg: *const c_void, nr: u32) -> c_int {
        ret(unsafe {
            libc::syscall(libc::SYS_io_uring_register, fd as libc::c_long, op as libc::c_long, arg, nr as libc::c_long)
        } as c_int)
    }
    fn mmap(&mut self, len: usize, fd: c_int, off: i64) -> *mut u8 {
        unsafe {
            libc::mmap(
                std::ptr::null_mut(),
                len,
                libc::PROT_READ | libc::PROT_WRITE,
                libc::MAP_SHARED | libc::MAP_POPULATE,
                fd,
                off,
            )
            .cast()
        }
    }
    fn munmap(&mut self, addr: *mut u8, len: usize) {
        unsafe { libc::munmap(addr.cast(), len) };
    }
    fn close_ring(&mut self, fd: c_int) {
        unsafe { libc::close(fd) };
    }
    fn pipe(&mut self) -> (c_int, c_int) {
        let mut fds = [0; 2];
        unsafe { libc::pipe2(fds.as_mut_ptr(), libc::O_CLOEXEC) };
        (fds[0], fds[1])
    }
    fn write(&mut self, wfd: c_int, _rfd: c_int, data: &[u8]) {
        unsafe { libc::write(wfd, data.as_ptr().cast(), data.len()) };
    }
    fn close_write(&mut self, wfd: c_int, _rfd: c_int) {
        unsafe { libc::close(wfd) };
    }
    fn settle(&mut self, _ring_fd: c_int) {
        // Completions of inline operations are posted before enter returns;
        // give task work a moment for the rest.
        std::thread::sleep(std::time::Duration::from_millis(5));
    }
    fn close_fd(&mut self, fd: c_int) {
        unsafe { libc::close(fd) };
    }
}

struct Stub;

impl Sys for Stub {
    fn name(&self) -> &'static str {
        "stub"
    }
    fn setup(&mut self, entries: u32, p: &mut Params) -> c_int {
        ret(unsafe { (kernel::hooks().io_uring_setup)(entries, std::ptr::from_mut(p).cast()) })
    }
    fn enter(&mut self, fd: c_int, to_submit: u32, min: u32, flags: u32, arg: *const c_void, sz: usize) -> c_int {
        ret(unsafe { (kernel::hooks().io_uring_enter2)(fd, to_submit, min, flags, arg, sz) })
    }
    fn register(&mut self, fd: c_int, op: u32, arg: *const c_void, nr: u32) -> c_int {
        ret(unsafe { (kernel::hooks().io_uring_register)(fd, op, arg, nr) })
    }
    fn mmap(&mut self, len: usize, fd: c_int, off: i64) -> *mut u8 {
        unsafe { (kernel::hooks().mmap)(len, 0, 0, fd, off).expect("stub mmap").cast() }
    }
    fn munmap(&mut self, addr: *mut u8, len: usize) {
        unsafe { (kernel::hooks().munmap)(addr.cast(), len) };
    }
    fn close_ring(&mut self, fd: c_int) {
        unsafe { libc::close(fd) };
    }
    fn pipe(&mut self) -> (c_int, c_int) {
        let fd = kernel::with(|k| {
            let fd = k.issue_fd("harness", kernel::NO_OP);
            k.scripts.insert(fd, std::collections::VecDeque::new());
            fd
        });
        (fd, fd)
    }
    fn write(&mut self, _wfd: c_int, rfd: c_int, data: &[u8]) {
        kernel::with(|k| k.scripts.get_mut(&rfd).unwrap().push_back(data.to_vec()));
    }
    fn close_write(&mut self, _wfd: c_int, rfd: c_int) {
        // End of stream: an empty chunk.
        kernel::with(|k| k.scripts.get_mut(&rfd).unwrap().push_back(Vec::new()));
    }
    fn settle(&mut self, ring_fd: c_int) {
        // Complete every operation that has data (or an end of stream) waiting;
        // operations on an empty "pipe" stay in flight, like on the real kernel.
        kernel::with(|k| {
            let Some(r) = k.ring_by_fd(ring_fd) else { return };
            loop {
                let mut progressed = false;
                for kid in k.completable(r) {
                    let rec = k.records[kid as usize].clone();
                    let readable = match rec.class {
                        kernel::OpClass::Read => k.scripts.get(&rec.sqe.fd()).is_none_or(|q| !q.is_empty()),
                        _ => true,
                    };
                    if readable {
                        k.complete_kid(r, kid, false);
                        progressed = true;
                    }
                }
                if !progressed {
                    break;
                }
            }
        });
    }
    fn close_fd(&mut self, _fd: c_int) {}
}

struct RawRing {
    fd: c_int,
    p: Params,
    sq: *mut u8,
    sq_len: usize,
    cq: *mut u8,
    cq_len: usize,
    sqes: *mut u8,
    sqes_len: usize,
}

impl RawRing {
    fn new(s: &mut dyn Sys, entries: u32, flags: u32) -> Result<RawRing, c_int> {
        let mut p = Params {
            flags: flags | SETUP_NO_SQARRAY,
            ..Params::default()
        };
        let fd = s.setup(entries, &mut p);
        if fd < 0 {
            return Err(fd);
        }
        let sq_len = (p.sq_off.array + p.sq_entries * 4).max(64) as usize;
        let cq_len = (p.cq_off.cqes + p.cq_entries * 16) as usize;
        let sqes_len = p.sq_entries as usize * 64;
        let sq = s.mmap(sq_len, fd, OFF_SQ_RING);
        let cq = s.mmap(cq_len, fd, OFF_CQ_RING);
        let sqes = s.mmap(sqes_len, fd, OFF_SQES);
        Ok(RawRing {
            fd,
            p,
            sq,
            sq_len,
            cq,
            cq_len,
            sqes,
            sqes_len,
        })
    }

    fn load(&self, base: *mut u8, off: u32) -> u32 {
        unsafe { (*base.add(off as usize).cast::<std::sync::atomic::AtomicU32>()).load(std::sync::atomic::Ordering::Acquire) }
    }

    fn store(&self, base: *mut u8, off: u32, v: u32) {
        unsafe { (*base.add(off as usize).cast::<std::sync::atomic::AtomicU32>()).store(v, std::sync::atomic::Ordering::Release) }
    }

    fn push(&mut self, f: impl FnOnce(&mut [u8; 64])) {
        let tail = self.load(self.sq, self.p.sq_off.tail);
        let idx = (tail & (self.p.sq_entries - 1)) as usize;
        let slot = unsafe { &mut *self.sqes.add(idx * 64).cast::<[u8; 64]>() };
        *slot = [0; 64];
        f(slot);
        self.store(self.sq, self.p.sq_off.tail, tail.wrapping_add(1));
    }

    fn reap(&mut self) -> Vec<Cqe> {
        let mut head = self.load(self.cq, self.p.cq_off.head);
        let tail = self.load(self.cq, self.p.cq_off.tail);
        let mut v = Vec::new();
        while head != tail {
            let idx = (head & (self.p.cq_entries - 1)) as usize;
            v.push(unsafe { self.cq.add(self.p.cq_off.cqes as usize).cast::<Cqe>().add(idx).read() });
            head = head.wrapping_add(1);
        }
        self.store(self.cq, self.p.cq_off.head, head);
        v
    }

    fn sq_flags(&self) -> u32 {
        self.load(self.sq, self.p.sq_off.flags)
    }

    fn destroy(self, s: &mut dyn Sys) {
        s.munmap(self.sqes, self.sqes_len);
        s.munmap(self.cq, self.cq_len);
        s.munmap(self.sq, self.sq_len);
        s.close_ring(self.fd);
    }
}

fn set_u8(s: &mut [u8; 64], off: usize, v: u8) {
    s[off] = v;
}
fn set_u16(s: &mut [u8; 64], off: usize, v: u16) {
    s[off..off + 2].copy_from_slice(&v.to_ne_bytes());
}
fn set_u32(s: &mut [u8; 64], off: usize, v: u32) {
    s[off..off + 4].copy_from_slice(&v.to_ne_bytes());
}
fn set_u64(s: &mut [u8; 64], off: usize, v: u64) {
    s[off..off + 8].copy_from_slice(&v.to_ne_bytes());
}

fn nop(ud: u64) -> impl FnOnce(&mut [u8; 64]) {
    move |s| {
        set_u8(s, 0, OP_NOP);
        set_u64(s, 32, ud);
    }
}

fn read(fd: c_int, buf: *mut u8, len: u32, ud: u64) -> impl FnOnce(&mut [u8; 64]) {
    move |s| {
        set_u8(s, 0, OP_READ);
        set_u32(s, 4, fd as u32);
        set_u64(s, 8, u64::MAX);
        set_u64(s, 16, buf as u64);
        set_u32(s, 24, len);
        set_u64(s, 32, ud);
    }
}

fn wait_arg(ms: u64, ts: &mut Timespec) -> GeteventsArg {
    ts.tv_sec = 0;
    ts.tv_nsec = (ms * 1_000_000) as i64;
    GeteventsArg {
        sigmask: 0,
        sigmask_sz: 0,
        min_wait_usec: 0,
        ts: std::ptr::from_mut(ts) as u64,
    }
}

fn fmt_cqes(v: &[Cqe]) -> String {
    v.iter()
        .map(|c| format!("[ud={:#x} res={} flags={:#x}]", c.user_data, c.res, c.flags))
        .collect::<Vec<_>>()
        .join(" ")
}

/// Every script returns its observations as lines.
fn scripts(s: &mut dyn Sys) -> Vec<(&'static str, Vec<String>)> {
    let mut out = Vec::new();
    let mut ts = Timespec { tv_sec: 0, tv_nsec: 0 };
    let wait = ENTER_GETEVENTS | ENTER_EXT_ARG;

    // 1. A NOP, submitted and waited for in one enter.
    {
        let mut o = Vec::new();
        let mut r = RawRing::new(s, 4, 0).unwrap();
        o.push(format!("granted sq={} cq={}", r.p.sq_entries, r.p.cq_entries));
        r.push(nop(7));
        let a = wait_arg(100, &mut ts);
        o.push(format!("enter(1,1,GETEVENTS) -> {}", s.enter(r.fd, 1, 1, wait, std::ptr::from_ref(&a).cast(), 24)));
        s.settle(r.fd);
        o.push(fmt_cqes(&r.reap()));
        r.destroy(s);
        out.push(("nop", o));
    }
    // 2. Waiting with nothing submitted times out with ETIME; asking for more
    //    submissions than queued submits what is there.
    {
        let mut o = Vec::new();
        let mut r = RawRing::new(s, 4, 0).unwrap();
        let a = wait_arg(1, &mut ts);
        o.push(format!("enter(0,1,GETEVENTS,1ms) -> {}", s.enter(r.fd, 0, 1, wait, std::ptr::from_ref(&a).cast(), 24)));
        r.push(nop(1));
        o.push(format!("enter(5,0,0) with 1 queued -> {}", s.enter(r.fd, 5, 0, 0, std::ptr::null(), 0)));
        s.settle(r.fd);
        o.push(fmt_cqes(&r.reap()));
        r.destroy(s);
        out.push(("etime-and-oversubmit", o));
    }
    // 3. Submitting and waiting for something that does not complete returns
    //    the number submitted, not ETIME.
    {
        let mut o = Vec::new();
        let mut r = RawRing::new(s, 4, 0).unwrap();
        let (rfd, wfd) = s.pipe();
        let mut buf = [0u8; 8];
        r.push(read(rfd, buf.as_mut_ptr(), 8, 0x100));
        let a = wait_arg(1, &mut ts);
        o.push(format!("enter(1,1,GETEVENTS,1ms) pending read -> {}", s.enter(r.fd, 1, 1, wait, std::ptr::from_ref(&a).cast(), 24)));
        o.push(fmt_cqes(&r.reap()));
        // Cancel it: the target gets ECANCELED, the cancel itself no completion.
        r.push(|q| {
            set_u8(q, 0, OP_ASYNC_CANCEL);
            set_u8(q, 1, SQE_CQE_SKIP_SUCCESS);
            set_u64(q, 16, 0x100);
            set_u64(q, 32, 2);
        });
        o.push(format!("enter(1,0,0) cancel -> {}", s.enter(r.fd, 1, 0, 0, std::ptr::null(), 0)));
        s.settle(r.fd);
        o.push(fmt_cqes(&r.reap()));
        // Cancelling something unknown: ENOENT on the cancel's own user_data.
        r.push(|q| {
            set_u8(q, 0, OP_ASYNC_CANCEL);
            set_u8(q, 1, SQE_CQE_SKIP_SUCCESS);
            set_u64(q, 16, 0x1234);
            set_u64(q, 32, 2);
        });
        o.push(format!("enter(1,0,0) cancel unknown -> {}", s.enter(r.fd, 1, 0, 0, std::ptr::null(), 0)));
        s.settle(r.fd);
        o.push(fmt_cqes(&r.reap()));
        s.close_fd(rfd);
        s.close_write(wfd, rfd);
        r.destroy(s);
        out.push(("pending-cancel", o));
    }
    // 4. Completion queue overflow: flag, no flush on a plain enter, flush on
    //    GETEVENTS.
    {
        let mut o = Vec::new();
        let mut r = RawRing::new(s, 2, 0).unwrap();
        o.push(format!("granted sq={} cq={}", r.p.sq_entries, r.p.cq_entries));
        for round in 0..3u64 {
            r.push(nop(10 + 2 * round));
            r.push(nop(11 + 2 * round));
            o.push(format!("enter(2,0,0) -> {}", s.enter(r.fd, 2, 0, 0, std::ptr::null(), 0)));
            s.settle(r.fd);
        }
        o.push(format!("overflow flag: {}", r.sq_flags() & SQ_CQ_OVERFLOW != 0));
        o.push(fmt_cqes(&r.reap()));
        o.push(format!("enter(0,0,0) -> {}", s.enter(r.fd, 0, 0, 0, std::ptr::null(), 0)));
        o.push(format!("after plain enter: {} flag {}", fmt_cqes(&r.reap()), r.sq_flags() & SQ_CQ_OVERFLOW != 0));
        let a = wait_arg(1, &mut ts);
        let rc = s.enter(r.fd, 0, 0, wait, std::ptr::from_ref(&a).cast(), 24);
        o.push(format!("enter(0,0,GETEVENTS) -> {rc}"));
        o.push(format!("after GETEVENTS enter: {} flag {}", fmt_cqes(&r.reap()), r.sq_flags() & SQ_CQ_OVERFLOW != 0));
        r.destroy(s);
        out.push(("cq-overflow", o));
    }
    // 5. A message to the own ring: two completions.
    {
        let mut o = Vec::new();
        let mut r = RawRing::new(s, 4, 0).unwrap();
        let fd = r.fd;
        r.push(move |q| {
            set_u8(q, 0, OP_MSG_RING);
            set_u32(q, 4, fd as u32);
            set_u64(q, 8, 1);
            set_u64(q, 16, 0);
            set_u64(q, 32, 1);
        });
        o.push(format!("enter(1,0,0) msg_ring -> {}", s.enter(r.fd, 1, 0, 0, std::ptr::null(), 0)));
        s.settle(r.fd);
        o.push(fmt_cqes(&r.reap()));
        // The same through io_uring_register without a ring.
        let mut sqe = [0u8; 64];
        set_u8(&mut sqe, 0, OP_MSG_RING);
        set_u32(&mut sqe, 4, fd as u32);
        set_u64(&mut sqe, 8, 1);
        set_u64(&mut sqe, 32, 1);
        o.push(format!("register(-1,SEND_MSG_RING) -> {}", s.register(-1, REGISTER_SEND_MSG_RING, sqe.as_ptr().cast(), 1)));
        s.settle(r.fd);
        o.push(fmt_cqes(&r.reap()));
        r.destroy(s);
        out.push(("msg-ring", o));
    }
    // 6. Synchronous cancel of everything.
    {
        let mut o = Vec::new();
        let mut r = RawRing::new(s, 4, 0).unwrap();
        let reg = SyncCancelReg {
            addr: 0,
            fd: -1,
            flags: ASYNC_CANCEL_ANY | ASYNC_CANCEL_ALL,
            timeout: Timespec { tv_sec: 1, tv_nsec: 0 },
            opcode: 0,
            pad: [0; 7],
            pad2: [0; 3],
        };
        o.push(format!("sync cancel, nothing in flight -> {}", s.register(r.fd, REGISTER_SYNC_CANCEL, std::ptr::from_ref(&reg).cast(), 1)));
        let (r1, w1) = s.pipe();
        let (r2, w2) = s.pipe();
        let mut b1 = [0u8; 4];
        let mut b2 = [0u8; 4];
        r.push(read(r1, b1.as_mut_ptr(), 4, 0x200));
        r.push(read(r2, b2.as_mut_ptr(), 4, 0x300));
        o.push(format!("enter(2,0,0) -> {}", s.enter(r.fd, 2, 0, 0, std::ptr::null(), 0)));
        o.push(format!("sync cancel, two in flight -> {}", s.register(r.fd, REGISTER_SYNC_CANCEL, std::ptr::from_ref(&reg).cast(), 1)));
        let mut c = r.reap();
        c.sort_by_key(|c| c.user_data);
        o.push(fmt_cqes(&c));
        for (a, b) in [(r1, w1), (r2, w2)] {
            s.close_fd(a);
            s.close_write(b, a);
        }
        r.destroy(s);
        out.push(("sync-cancel", o));
    }
    // 7. Provided buffers: selection order, flags, end of stream, ENOBUFS,
    //    multishot termination.
    {
        let mut o = Vec::new();
        let mut r = RawRing::new(s, 4, 0).unwrap();
        let layout = std::alloc::Layout::from_size_align(4096, 4096).unwrap();
        let ring_mem = unsafe { std::alloc::alloc_zeroed(layout) };
        let bufs = unsafe { std::alloc::alloc_zeroed(layout) };
        let reg = BufReg {
            ring_addr: ring_mem as u64,
            ring_entries: 2,
            bgid: 5,
            flags: 0,
            resv: [0; 3],
        };
        o.push(format!("register pbuf ring -> {}", s.register(r.fd, REGISTER_PBUF_RING, std::ptr::from_ref(&reg).cast(), 1)));
        let offer = |slot: usize, bid: u16, tail: u16| unsafe {
            let e = ring_mem.cast::<Buf>().add(slot);
            (&raw mut (*e).addr).write(bufs as u64 + u64::from(bid) * 16);
            (&raw mut (*e).len).write(16);
            (&raw mut (*e).bid).write(bid);
            (*ring_mem.add(14).cast::<std::sync::atomic::AtomicU16>()).store(tail, std::sync::atomic::Ordering::Release);
        };
        offer(0, 0, 1);
        offer(1, 1, 2);
        let (rfd, wfd) = s.pipe();
        s.write(wfd, rfd, b"hello");
        let sel_read = |ud: u64, op: u8| {
            move |q: &mut [u8; 64]| {
                set_u8(q, 0, op);
                set_u8(q, 1, SQE_BUFFER_SELECT);
                set_u32(q, 4, rfd as u32);
                set_u64(q, 8, u64::MAX);
                set_u16(q, 40, 5);
                set_u64(q, 32, ud);
            }
        };
        r.push(sel_read(0x10, OP_READ));
        o.push(format!("enter read#1 -> {}", s.enter(r.fd, 1, 0, 0, std::ptr::null(), 0)));
        s.settle(r.fd);
        o.push(fmt_cqes(&r.reap()));
        // Multishot read: takes the remaining buffer, then runs out of buffers.
        s.write(wfd, rfd, b"abcdefg");
        r.push(sel_read(0x20, OP_READ_MULTISHOT));
        o.push(format!("enter multishot -> {}", s.enter(r.fd, 1, 0, 0, std::ptr::null(), 0)));
        s.settle(r.fd);
        o.push(fmt_cqes(&r.reap()));
        // More data but no buffer left: the multishot read ends with ENOBUFS.
        s.write(wfd, rfd, b"xyz");
        s.settle(r.fd);
        o.push(format!("multishot without buffers: {}", fmt_cqes(&r.reap())));
        // Give buffer 0 back: a plain read gets the pending data in it.
        offer(0, 0, 3);
        r.push(sel_read(0x30, OP_READ));
        o.push(format!("enter read#2 -> {}", s.enter(r.fd, 1, 0, 0, std::ptr::null(), 0)));
        s.settle(r.fd);
        o.push(fmt_cqes(&r.reap()));
        // End of stream: a zero read still carries (consumes) a buffer, a
        // multishot read ends without one.
        offer(1, 0, 4);
        s.close_write(wfd, rfd);
        r.push(sel_read(0x40, OP_READ));
        o.push(format!("enter read at eof -> {}", s.enter(r.fd, 1, 0, 0, std::ptr::null(), 0)));
        s.settle(r.fd);
        o.push(fmt_cqes(&r.reap()));
        offer(0, 0, 5);
        r.push(sel_read(0x50, OP_READ_MULTISHOT));
        o.push(format!("enter multishot at eof -> {}", s.enter(r.fd, 1, 0, 0, std::ptr::null(), 0)));
        s.settle(r.fd);
        o.push(fmt_cqes(&r.reap()));
        let unreg = BufReg {
            ring_addr: 0,
            ring_entries: 0,
            bgid: 5,
            flags: 0,
            resv: [0; 3],
        };
        o.push(format!("unregister pbuf ring -> {}", s.register(r.fd, UNREGISTER_PBUF_RING, std::ptr::from_ref(&unreg).cast(), 1)));
        s.close_fd(rfd);
        r.destroy(s);
        unsafe {
            std::alloc::dealloc(ring_mem, layout);
            std::alloc::dealloc(bufs, layout);
        }
        out.push(("provided-buffers", o));
    }
    // 8. CLOSE with skip-success: silent on success, a completion on failure.
    {
        let mut o = Vec::new();
        let mut r = RawRing::new(s, 4, 0).unwrap();
        let (rfd, wfd) = s.pipe();
        for fd in [rfd, 0x7000_0001] {
            r.push(move |q| {
                set_u8(q, 0, OP_CLOSE);
                set_u8(q, 1, SQE_CQE_SKIP_SUCCESS);
                set_u32(q, 4, fd as u32);
                set_u64(q, 32, 3);
            });
            o.push(format!("enter close -> {}", s.enter(r.fd, 1, 0, 0, std::ptr::null(), 0)));
            s.settle(r.fd);
            o.push(fmt_cqes(&r.reap()));
        }
        // IOSQE_FIXED_FILE on a CLOSE is refused with EBADF and closes nothing:
        // the same descriptor can still be closed (silently) afterwards.
        s.close_write(wfd, rfd);
        let (rfd2, wfd2) = s.pipe();
        for flags in [SQE_FIXED_FILE | SQE_CQE_SKIP_SUCCESS, SQE_CQE_SKIP_SUCCESS] {
            r.push(move |q| {
                set_u8(q, 0, OP_CLOSE);
                set_u8(q, 1, flags);
                set_u32(q, 4, rfd2 as u32);
                set_u64(q, 32, 5);
            });
            o.push(format!("enter close flags={flags:#x} -> {}", s.enter(r.fd, 1, 0, 0, std::ptr::null(), 0)));
            s.settle(r.fd);
            o.push(fmt_cqes(&r.reap()));
        }
        s.close_write(wfd2, rfd2);
        r.destroy(s);
        out.push(("close-skip-success", o));
    }
    // 9. Setup validation.
    {
        let mut o = Vec::new();
        for (entries, flags, cq) in [
            (0u32, 0u32, 0u32),
            (3, 0, 0),
            (40_000, 0, 0),
            (40_000, SETUP_CLAMP, 0),
            (4, SETUP_CQSIZE, 2),
            (4, SETUP_CQSIZE, 0),
            (4, SETUP_CQSIZE, 100),
            (4, SETUP_DEFER_TASKRUN, 0),
            (4, SETUP_DEFER_TASKRUN | SETUP_SINGLE_ISSUER, 0),
            (4, SETUP_SQ_AFF, 0),
        ] {
            let mut p = Params {
                flags: flags | SETUP_NO_SQARRAY,
                cq_entries: cq,
                ..Params::default()
            };
            let fd = s.setup(entries, &mut p);
            if fd >= 0 {
                o.push(format!("setup({entries}, flags={flags:#x}, cq={cq}) -> ok sq={} cq={}", p.sq_entries, p.cq_entries));
                s.close_ring(fd);
            } else {
                o.push(format!("setup({entries}, flags={flags:#x}, cq={cq}) -> {fd}"));
            }
        }
        out.push(("setup-validation", o));
    }
    out
}

/// Run the suite. Returns the number of mismatching scripts (or `None` if the
/// real kernel has no io_uring).
pub fn run() -> Option<usize> {
    let mut p = Params::default();
    let probe = Real.setup(2, &mut p);
    if probe < 0 {
        println!("real io_uring is not available here (io_uring_setup -> {probe}): conformance skipped");
        return None;
    }
    unsafe { libc::close(probe) };
    let real = scripts(&mut Real);
    // The stub, with a fresh kernel and the all-zero (plainest) choice tape.
    crate::report::reset(false);
    crate::tape::start_replay(Vec::new());
    kernel::reset(kernel::KCfg::default());
    crate::sched::set_active(true);
    let stub = scripts(&mut Stub);
    crate::sched::set_active(false);
    let (_, herr, _) = crate::report::take();
    let mut bad = 0;
    for ((name, r), (_, st)) in real.iter().zip(stub.iter()) {
        if r == st && herr.is_empty() {
            println!("{name}: ok ({} observations)", r.len());
        } else {
            bad += 1;
            println!("{name}: MISMATCH");
            for (a, b) in r.iter().zip(st.iter()) {
                if a != b {
                    println!("   real: {a}\n   stub: {b}");
                }
            }
            if r.len() != st.len() {
                println!("   real has {} observations, stub {}", r.len(), st.len());
            }
        }
    }
    for h in herr {
        println!("stub harness error: {h}");
    }
    Some(bad)
}
