//! Violations, event log and abstract trace hash of the current run.

use std::fmt;
use std::sync::Mutex;
use std::sync::atomic::{AtomicBool, AtomicU64, Ordering};

#[derive(Clone, Debug)]
pub struct Violation {
    pub class: String,
    pub detail: String,
    /// Number of log events before the violation.
    pub at_event: u64,
}

struct Report {
    violations: Vec<Violation>,
    lines: Vec<String>,
    harness_errors: Vec<String>,
}

static REPORT: Mutex<Report> = Mutex::new(Report {
    violations: Vec::new(),
    lines: Vec::new(),
    harness_errors: Vec::new(),
});
static LOGGING: AtomicBool = AtomicBool::new(false);
static EVENTS: AtomicU64 = AtomicU64::new(0);
static TRACE: AtomicU64 = AtomicU64::new(0xcbf2_9ce4_8422_2325);
static NONTRIVIAL: AtomicBool = AtomicBool::new(false);

fn report() -> std::sync::MutexGuard<'static, Report> {
    match REPORT.lock() {
        Ok(g) => g,
        Err(e) => e.into_inner(),
    }
}

pub fn reset(logging: bool) {
    let mut r = report();
    r.violations.clear();
    r.lines.clear();
    r.harness_errors.clear();
    LOGGING.store(logging, Ordering::Relaxed);
    EVENTS.store(0, Ordering::Relaxed);
    TRACE.store(0xcbf2_9ce4_8422_2325, Ordering::Relaxed);
    NONTRIVIAL.store(false, Ordering::Relaxed);
}

pub fn logging() -> bool {
    LOGGING.load(Ordering::Relaxed)
}

/// Record a violation of a property.
pub fn violation(class: &str, detail: String) {
    crate::alloc::harness(|| {
        let at_event = EVENTS.load(Ordering::Relaxed);
        if logging() {
            log_line(format!("!! VIOLATION {class}: {detail}"));
        }
        let mut r = report();
        if r.violations.len() < 16 {
            r.violations.push(Violation {
                class: class.to_string(),
                detail,
                at_event,
            });
        }
    });
}

/// Record a problem of the harness itself (never a VIOLATION).
pub fn harness_error(detail: String) {
    crate::alloc::harness(|| {
        if logging() {
            log_line(format!("!! HARNESS {detail}"));
        }
        let mut r = report();
        if r.harness_errors.len() < 16 {
            r.harness_errors.push(detail);
        }
    });
}

pub fn has_violation() -> bool {
    !report().violations.is_empty()
}

pub fn take() -> (Vec<Violation>, Vec<String>, Vec<String>) {
    let mut r = report();
    (
        std::mem::take(&mut r.violations),
        std::mem::take(&mut r.harness_errors),
        std::mem::take(&mut r.lines),
    )
}

fn log_line(s: String) {
    report().lines.push(s);
}

/// Log an event (only materialised when logging is on). Never draws from the
/// PRNG, never reads a clock.
pub fn event(args: fmt::Arguments<'_>) {
    EVENTS.fetch_add(1, Ordering::Relaxed);
    if logging() {
        crate::alloc::harness(|| log_line(args.to_string()));
    }
}

#[macro_export]
macro_rules! ev {
    ($($arg:tt)*) => { $crate::report::event(format_args!($($arg)*)) };
}

/// Fold an abstract event into the trace hash.
pub fn trace(words: &[u32]) {
    let mut h = TRACE.load(Ordering::Relaxed);
    for w in words {
        h = (h ^ u64::from(*w)).wrapping_mul(0x100_0000_01B3);
    }
    h = (h ^ 0xff).wrapping_mul(0x100_0000_01B3);
    TRACE.store(h, Ordering::Relaxed);
}

pub fn trace_hash() -> u64 {
    TRACE.load(Ordering::Relaxed)
}

/// Mark the run as non-trivial (a fault fired, or an interleaving at a yield
/// point happened).
pub fn nontrivial() {
    NONTRIVIAL.store(true, Ordering::Relaxed);
}

pub fn is_nontrivial() -> bool {
    NONTRIVIAL.load(Ordering::Relaxed)
}

// Abstract trace tags.
pub mod tag {
    pub const POLL: u32 = 1;
    pub const DROP: u32 = 2;
    pub const RINGPOLL: u32 = 3;
    pub const CONSUME: u32 = 4;
    pub const COMPLETE: u32 = 5;
    pub const CANCEL: u32 = 6;
    pub const FAULT: u32 = 7;
    pub const SWITCH: u32 = 8;
    pub const CREATE: u32 = 9;
    pub const KYIELD: u32 = 10;
    pub const STEP: u32 = 11;
    pub const CFG: u32 = 12;
    pub const WAKE: u32 = 13;
    pub const OUT: u32 = 14;
}
