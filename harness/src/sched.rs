//! Baton scheduler: harness "threads" are real OS threads, exactly one holds
//! the baton. Every yield point in a10 and every harness step boundary calls
//! the scheduler, which picks who runs next from the choice tape. Blocking
//! `io_uring_enter` calls are scheduler states, time is simulated.

use std::cell::Cell;
use std::ffi::c_int;
use std::sync::{Arc, Condvar, Mutex};

use crate::kernel::{self, Wait};
use crate::report::{self, tag, trace};
use crate::stats::{self, C};
use crate::tape::{self, site};
use crate::{alloc, ev};

thread_local! {
    static ACTIVE: Cell<bool> = const { Cell::new(false) };
    static TID: Cell<usize> = const { Cell::new(usize::MAX) };
}

/// Is the calling thread part of a simulated run?
pub fn active() -> bool {
    ACTIVE.with(Cell::get)
}

pub fn set_active(on: bool) {
    ACTIVE.with(|a| a.set(on));
}

/// Is the calling thread one of several simulated threads?
pub fn owns_scheduling() -> bool {
    TID.with(Cell::get) != usize::MAX
}

/// Should `lock` in a10 spin through the yield hook instead of parking in the
/// OS? Also in single-threaded runs: there a lock that cannot be taken is a
/// dead-lock (or a lock in freed memory) and must not hang the process.
pub fn intercepts_locks() -> bool {
    active()
}

pub fn tid() -> usize {
    TID.with(Cell::get)
}

/// Bumped whenever something happened that an idle thread may be waiting for
/// (a waker fired, the kernel consumed or completed something, a thread ended).
pub static PROGRESS: std::sync::atomic::AtomicU64 = std::sync::atomic::AtomicU64::new(0);

pub fn progress() {
    PROGRESS.fetch_add(1, std::sync::atomic::Ordering::AcqRel);
}

#[derive(Clone, Debug, PartialEq)]
enum State {
    Runnable,
    /// Nothing to do until `PROGRESS` moves past the value seen.
    Idle(u64),
    BlockedLock,
    BlockedCq { wait: Wait, deadline: Option<u64> },
    Finished,
    /// Blocked for ever on an a10 lock nobody can release: parked for good.
    Dead,
}

#[derive(Copy, Clone, Debug, PartialEq)]
enum WakeReason {
    None,
    Timeout,
    Stuck,
}

struct Parker {
    go: Mutex<bool>,
    cv: Condvar,
}

impl Parker {
    fn park(&self) {
        let mut g = self.go.lock().unwrap_or_else(|e| e.into_inner());
        while !*g {
            g = self.cv.wait(g).unwrap_or_else(|e| e.into_inner());
        }
        *g = false;
    }
    fn unpark(&self) {
        let mut g = self.go.lock().unwrap_or_else(|e| e.into_inner());
        *g = true;
        self.cv.notify_one();
    }
}

struct Thread {
    state: State,
    reason: WakeReason,
    parker: Arc<Parker>,
}

struct Sched {
    threads: Vec<Thread>,
    steps: u64,
    budget: u64,
    /// Per mille chance to preempt at a yield point.
    p_preempt: u32,
    /// PCT (probabilistic concurrency testing, Burckhardt et al.) instead of
    /// uniform preemption: run the runnable thread of highest priority, lower
    /// the running thread's priority at a few drawn steps. Long undisturbed
    /// stretches with few, well placed switches.
    pct: Option<Pct>,
    done: Arc<Parker>,
    exhausted: bool,
    /// Consecutive scheduling points that were all "blocked on a lock".
    blocked_streak: u32,
    /// Every thread is idle and nothing can make progress any more.
    stalled: bool,
}

struct Pct {
    /// Priority per thread (higher runs first).
    prio: Vec<i64>,
    /// Steps at which the running thread drops below everybody.
    change_at: Vec<u64>,
    next_low: i64,
}

static SCHED: Mutex<Option<Sched>> = Mutex::new(None);

fn sched() -> std::sync::MutexGuard<'static, Option<Sched>> {
    SCHED.lock().unwrap_or_else(|e| e.into_inner())
}

/// Can thread `i` run right now?
fn can_run(s: &Sched, i: usize) -> bool {
    match &s.threads[i].state {
        State::Runnable | State::BlockedLock => true,
        State::Idle(seen) => PROGRESS.load(std::sync::atomic::Ordering::Acquire) != *seen,
        State::BlockedCq { wait, .. } => {
            s.threads[i].reason != WakeReason::None
                || kernel::with(|k| {
                    !k.rings[wait.ring].deferred.is_empty()
                        || !k.rings[wait.ring].overflow.is_empty()
                        || k.rings[wait.ring].cq_ready() >= wait.want
                })
        }
        State::Finished | State::Dead => false,
    }
}

/// Pick the next thread to run. `me` is the calling thread, `must_switch`
/// excludes it (it is blocked).
fn pick(s: &mut Sched, me: usize, must_switch: bool) -> Option<usize> {
    loop {
        let mut cands: Vec<usize> = (0..s.threads.len())
            .filter(|i| (*i != me || !must_switch) && can_run(s, *i))
            .collect();
        // Keep the order stable: current thread first (value 0 = stay).
        if let Some(pos) = cands.iter().position(|i| *i == me) {
            cands.remove(pos);
            cands.insert(0, me);
        }
        if !cands.is_empty() {
            if cands.len() == 1 {
                return Some(cands[0]);
            }
            if let Some(pct) = s.pct.as_mut() {
                if !s.exhausted {
                    // A thread that cannot take a lock is disabled in PCT's
                    // terms; we only see it spinning, so it goes below everybody
                    // (else the lock holder might never run: priority inversion).
                    let lock_blocked = me < s.threads.len() && s.threads[me].state == State::BlockedLock;
                    if (pct.change_at.contains(&s.steps) || lock_blocked) && me < pct.prio.len() {
                        pct.prio[me] = pct.next_low;
                        pct.next_low -= 1;
                    }
                    // Blocked-on-a-lock and idle-with-progress threads are in
                    // `cands` like everybody else; the caller is excluded when
                    // it must switch.
                    let best = cands.iter().copied().max_by_key(|i| pct.prio[*i]).unwrap();
                    return Some(best);
                }
                return Some(cands[0]);
            }
            let stay_possible = cands[0] == me;
            if stay_possible && (s.exhausted || !tape::chance(site::SCHED, s.p_preempt, 1000)) {
                return Some(me);
            }
            let others = if stay_possible { &cands[1..] } else { &cands[..] };
            let next = others[tape::choose(site::SCHED, others.len() as u32) as usize];
            return Some(next);
        }
        // An awake kernel submission thread picks up what is queued...
        let consumed = kernel::with(|k| {
            let mut any = false;
            for r in 0..k.rings.len() {
                if k.rings[r].sqpoll() && k.rings[r].sq_awake && k.rings[r].enabled && k.rings[r].sq_pending() > 0 {
                    any |= k.consume(r, u32::MAX) > 0;
                }
            }
            any
        });
        if consumed {
            continue;
        }
        // Nobody can run. Is anybody waiting for completions?
        let waiters: Vec<usize> = (0..s.threads.len())
            .filter(|i| matches!(s.threads[*i].state, State::BlockedCq { .. }))
            .collect();
        if waiters.is_empty() {
            // Only idle threads (or nobody) left: let them notice.
            let idle: Vec<usize> = (0..s.threads.len())
                .filter(|i| (*i != me || !must_switch) && matches!(s.threads[*i].state, State::Idle(_)))
                .collect();
            if let Some(i) = idle.first() {
                s.threads[*i].state = State::Runnable;
                s.stalled = true;
                return Some(*i);
            }
            return None;
        }
        // Let the kernel finish in-flight work if there is any...
        let progressed = kernel::with(|k| {
            for w in &waiters {
                if let State::BlockedCq { wait, .. } = &s.threads[*w].state {
                    if !k.completable(wait.ring).is_empty() {
                        k.complete_some(wait.ring);
                        return true;
                    }
                }
            }
            false
        });
        if progressed {
            continue;
        }
        // ... else jump the clock to the earliest deadline.
        let earliest = waiters
            .iter()
            .filter_map(|w| match &s.threads[*w].state {
                State::BlockedCq {
                    deadline: Some(d), ..
                } => Some((*d, *w)),
                _ => None,
            })
            .min();
        match earliest {
            Some((_, w)) => {
                s.threads[w].reason = WakeReason::Timeout;
            }
            None => {
                // A poll without timeout that nothing will ever satisfy.
                for w in waiters {
                    s.threads[w].reason = WakeReason::Stuck;
                }
            }
        }
    }
}

fn switch_to(me: usize, next: usize) {
    if next == me {
        return;
    }
    let (mine, theirs) = {
        let g = sched();
        let s = g.as_ref().unwrap();
        (s.threads[me].parker.clone(), s.threads[next].parker.clone())
    };
    stats::inc(C::probe_thread_switches);
    report::nontrivial();
    trace(&[tag::SWITCH, next as u32]);
    ev!("s switch t{me} -> t{next}");
    theirs.unpark();
    mine.park();
}

/// Scheduling point (called from the a10 hooks and at harness step
/// boundaries).
pub fn yield_now(site: a10::verif::Site, _addr: usize) {
    let me = tid();
    if me == usize::MAX {
        return;
    }
    let blocked = matches!(site, a10::verif::Site::LockBlocked);
    let next = {
        let mut g = sched();
        let Some(s) = g.as_mut() else { return };
        s.steps += 1;
        if s.steps > s.budget && !s.exhausted {
            s.exhausted = true;
            report::harness_error("scheduler step budget exhausted".to_string());
        }
        if blocked {
            if _addr != 0 {
                stats::inc(C::probe_lock_contended);
            }
            s.threads[me].state = State::BlockedLock;
            s.blocked_streak += 1;
        } else {
            s.blocked_streak = 0;
        }
        let next = pick(s, me, blocked);
        if blocked && (next.is_none() || s.blocked_streak > 20_000) {
            // Nobody who could release the lock can run (or only threads that
            // are blocked on locks themselves have run for a long time): a10
            // would sleep on the futex for ever. Report, park this thread for
            // good (unwinding through a10 frames could block again) and hand
            // the baton on.
            for v in alloc::take_violations() {
                report::violation(v.class, v.detail);
            }
            let freed = alloc::find(_addr).is_some_and(|(_, b)| b.state != alloc::BlockState::Live);
            report::violation(
                if freed { "mem.use-after-free" } else { "wake.deadlock" },
                if freed {
                    "a10 takes a lock that lies in memory it has already freed".to_string()
                } else {
                    format!("thread {me} blocks forever on an a10 lock that no runnable thread can release")
                },
            );
            s.threads[me].state = State::Dead;
            progress();
            let next = pick(s, me, true);
            let wake = match next {
                Some(n) => s.threads[n].parker.clone(),
                None => s.done.clone(),
            };
            let mine = s.threads[me].parker.clone();
            drop(g);
            wake.unpark();
            loop {
                mine.park();
            }
        }
        if blocked {
            s.threads[me].state = State::Runnable;
        }
        next
    };
    match next {
        Some(n) => {
            if n != me {
                stats::inc(C::fault_preempt);
            }
            switch_to(me, n);
        }
        None => {
            // Everybody else is finished: keep going.
        }
    }
}

/// The calling thread has nothing to do until somebody else made progress:
/// hand the baton to another thread. Returns false if nothing can make
/// progress any more (every thread is idle, nobody waits for the kernel).
pub fn idle() -> bool {
    let me = tid();
    if me == usize::MAX {
        return true;
    }
    alloc::harness(|| {
        let seen = PROGRESS.load(std::sync::atomic::Ordering::Acquire);
        let next = {
            let mut g = sched();
            let Some(s) = g.as_mut() else { return true };
            s.steps += 1;
            if s.stalled {
                return false;
            }
            s.threads[me].state = State::Idle(seen);
            let n = pick(s, me, true);
            if n.is_none() {
                s.threads[me].state = State::Runnable;
                s.stalled = true;
                return false;
            }
            n
        };
        if let Some(n) = next {
            switch_to(me, n);
        }
        let mut g = sched();
        if let Some(s) = g.as_mut() {
            s.threads[me].state = State::Runnable;
            if s.stalled {
                return false;
            }
        }
        true
    })
}

/// Harness level step boundary.
pub fn step_boundary() {
    if owns_scheduling() {
        alloc::harness(|| yield_now(a10::verif::Site::TryLock, 0));
    }
}

/// Blocking part of `io_uring_enter`.
pub fn wait(w: &Wait) -> c_int {
    let me = tid();
    if me == usize::MAX {
        // Single-threaded run: the kernel decides here and now.
        loop {
            if let Some(r) = kernel::with(|k| k.wait_step(w, false)) {
                return r;
            }
        }
    }
    let wait_start = kernel::stamp();
    let log = |expired: bool| {
        let end = kernel::stamp();
        kernel::with(|k| k.wait_log.push((me, wait_start, end, expired)));
    };
    loop {
        if let Some(r) = kernel::with(|k| k.wait_step(w, true)) {
            log(false);
            return r;
        }
        // Block: somebody else has to make progress.
        let deadline = w
            .timeout_ns
            .map(|ns| kernel::with(|k| k.clock_ns.saturating_add(ns)));
        let next = {
            let mut g = sched();
            let s = g.as_mut().unwrap();
            s.steps += 1;
            s.threads[me].state = State::BlockedCq {
                wait: w.clone(),
                deadline,
            };
            s.threads[me].reason = WakeReason::None;
            pick(s, me, false)
        };
        match next {
            Some(n) if n != me => switch_to(me, n),
            _ => {}
        }
        // We run again: why?
        let reason = {
            let mut g = sched();
            let s = g.as_mut().unwrap();
            s.threads[me].state = State::Runnable;
            std::mem::replace(&mut s.threads[me].reason, WakeReason::None)
        };
        match reason {
            WakeReason::None => continue,
            WakeReason::Timeout => {
                // A zero timeout (a10 was awoken) ending is not an expiry.
                log(w.timeout_ns.is_some_and(|ns| ns > 0));
                return kernel::with(|k| k.wait_timeout(w, deadline.unwrap_or(0)));
            }
            WakeReason::Stuck => {
                log(true);
                return kernel::with(|k| {
                    k.stuck_waits += 1;
                    ev!("k enter ring#{} would block forever", w.ring);
                    if w.submitted > 0 {
                        w.submitted as c_int
                    } else {
                        unsafe { *libc::__errno_location() = libc::EINTR };
                        -1
                    }
                });
            }
        }
    }
}

/// Run `bodies` as simulated threads until all have finished.
pub fn run_threads(bodies: Vec<Box<dyn FnOnce() + Send>>, p_preempt: u32, budget: u64) {
    let n = bodies.len();
    let done = Arc::new(Parker {
        go: Mutex::new(false),
        cv: Condvar::new(),
    });
    {
        let mut g = sched();
        *g = Some(Sched {
            threads: (0..n)
                .map(|_| Thread {
                    state: State::Runnable,
                    reason: WakeReason::None,
                    parker: Arc::new(Parker {
                        go: Mutex::new(false),
                        cv: Condvar::new(),
                    }),
                })
                .collect(),
            steps: 0,
            budget,
            p_preempt,
            pct: None,
            done: done.clone(),
            exhausted: false,
            blocked_streak: 0,
            stalled: false,
        });
    }
    // Strategy of this run: uniform preemption (3 of 4) or PCT.
    if tape::choose(site::SCHED, 4) == 3 {
        let depth = 1 + tape::choose(site::SCHED, 3) as usize;
        let horizon = tape::pick(site::SCHED, &[60u32, 200, 800]);
        let mut order: Vec<i64> = (0..n as i64).collect();
        // A drawn permutation of the initial priorities.
        for i in (1..n).rev() {
            let j = tape::choose(site::SCHED, i as u32 + 1) as usize;
            order.swap(i, j);
        }
        let change_at: Vec<u64> = (0..depth).map(|_| 1 + u64::from(tape::choose(site::SCHED, horizon))).collect();
        crate::ev!("s strategy PCT depth={depth} horizon={horizon}");
        crate::stats::inc(C::probe_sched_pct);
        if let Some(s) = sched().as_mut() {
            s.pct = Some(Pct {
                prio: order,
                change_at,
                next_low: -1,
            });
        }
    }
    let mut handles = Vec::new();
    for (i, body) in bodies.into_iter().enumerate() {
        let parker = sched().as_ref().unwrap().threads[i].parker.clone();
        let h = std::thread::Builder::new()
            .name(format!("sim-t{i}"))
            .stack_size(512 * 1024)
            .spawn(move || {
                parker.park();
                TID.with(|t| t.set(i));
                set_active(true);
                crate::segv::register_stack();
                let result = std::panic::catch_unwind(std::panic::AssertUnwindSafe(body));
                if let Err(p) = result {
                    crate::run::record_panic(p);
                }
                crate::segv::unregister_stack();
                set_active(false);
                // Hand the baton on.
                let next = {
                    let mut g = sched();
                    let s = g.as_mut().unwrap();
                    s.threads[i].state = State::Finished;
                    progress();
                    pick(s, i, true)
                };
                TID.with(|t| t.set(usize::MAX));
                match next {
                    Some(n) => {
                        let p = sched().as_ref().unwrap().threads[n].parker.clone();
                        p.unpark();
                    }
                    None => {
                        let d = sched().as_ref().unwrap().done.clone();
                        d.unpark();
                    }
                }
            })
            .expect("spawn sim thread");
        handles.push(h);
    }
    // First thread to run is a draw too.
    let first = tape::choose(site::SCHED, n as u32) as usize;
    let p = sched().as_ref().unwrap().threads[first].parker.clone();
    p.unpark();
    done.park();
    // Threads that never finished (deadlock on a10 locks) cannot be joined.
    let unfinished: Vec<usize> = {
        let g = sched();
        let s = g.as_ref().unwrap();
        (0..n)
            .filter(|i| s.threads[*i].state != State::Finished)
            .collect()
    };
    if unfinished.is_empty() {
        for h in handles {
            let _ = h.join();
        }
    } else {
        report::violation(
            "wake.deadlock",
            format!("threads {unfinished:?} are blocked forever on a10 locks"),
        );
        for h in handles {
            // Leaked on purpose: they stay parked inside a10 frames.
            std::mem::forget(h);
        }
    }
    let steps = sched().as_ref().map_or(0, |s| s.steps);
    stats::add(C::total_steps, steps);
    *sched() = None;
}
