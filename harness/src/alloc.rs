//! Tracking global allocator: live-block map, pins ("the kernel owns this
//! block"), quarantine of freed blocks for the duration of a run, double-free
//! detection and per-run leak accounting.

use std::alloc::{GlobalAlloc, Layout, System};
use std::cell::Cell;
use std::collections::BTreeMap;
use std::sync::atomic::{AtomicBool, AtomicU64, Ordering};

/// Who allocated a block.
#[derive(Copy, Clone, Debug, Eq, PartialEq)]
#[repr(u8)]
pub enum Scope {
    /// Harness bookkeeping, never part of a leak check.
    Harness = 0,
    /// Allocated while executing a10 code.
    A10 = 1,
    /// Allocated by the harness to be handed to a10 (buffers).
    Resource = 2,
}

#[derive(Copy, Clone, Debug, Eq, PartialEq)]
pub enum BlockState {
    Live,
    Freed,
}

#[derive(Clone, Debug)]
pub struct Block {
    pub size: usize,
    pub align: usize,
    pub state: BlockState,
    pub scope: Scope,
    pub epoch: u64,
    pub pins: u32,
    pub seq: u64,
}

#[derive(Clone, Debug)]
pub struct AllocViolation {
    pub class: &'static str,
    pub detail: String,
}

struct State {
    blocks: BTreeMap<usize, Block>,
    /// Freed during the current run, really freed at `end_run`.
    quarantine: Vec<(usize, Layout)>,
    in_run: bool,
    epoch: u64,
    seq: u64,
    violations: Vec<AllocViolation>,
    /// Human readable reasons for the pins, keyed by block base.
    pin_reasons: BTreeMap<usize, String>,
    /// Blocks allocated during the current run outside harness scope.
    epoch_blocks: Vec<usize>,
    /// Addresses somebody still holds a reference to: freeing the block that
    /// contains one is reported with the given class.
    watches: Vec<(usize, &'static str, String)>,
}

struct Spin(AtomicBool);

impl Spin {
    fn lock(&self) {
        while self
            .0
            .compare_exchange_weak(false, true, Ordering::Acquire, Ordering::Relaxed)
            .is_err()
        {
            std::hint::spin_loop();
            unsafe { libc::sched_yield() };
        }
    }
    fn unlock(&self) {
        self.0.store(false, Ordering::Release);
    }
}

static LOCK: Spin = Spin(AtomicBool::new(false));
static mut STATE: Option<State> = None;
pub static ALLOCS: AtomicU64 = AtomicU64::new(0);

thread_local! {
    static IN_TRACKER: Cell<bool> = const { Cell::new(false) };
    static SCOPE: Cell<u8> = const { Cell::new(0) };
}

/// True if we're inside the tracker (or thread-locals are gone): allocations
/// are then passed straight to the system allocator, unrecorded.
fn in_tracker() -> bool {
    IN_TRACKER.try_with(Cell::get).unwrap_or(true)
}

fn scope() -> Scope {
    match SCOPE.try_with(Cell::get).unwrap_or(0) {
        1 => Scope::A10,
        2 => Scope::Resource,
        _ => Scope::Harness,
    }
}

/// Run `f` with allocations attributed to `scope`.
pub fn scoped<T>(scope: Scope, f: impl FnOnce() -> T) -> T {
    struct Reset(u8);
    impl Drop for Reset {
        fn drop(&mut self) {
            SCOPE.with(|c| c.set(self.0));
        }
    }
    let old = SCOPE.with(|c| c.replace(scope as u8));
    let _reset = Reset(old);
    f()
}

/// Run a10 code.
pub fn a10<T>(f: impl FnOnce() -> T) -> T {
    scoped(Scope::A10, f)
}

/// Allocate something that is handed to a10.
pub fn res<T>(f: impl FnOnce() -> T) -> T {
    scoped(Scope::Resource, f)
}

/// Run harness code (from within an a10 scope, e.g. in a hook).
pub fn harness<T>(f: impl FnOnce() -> T) -> T {
    scoped(Scope::Harness, f)
}

#[allow(static_mut_refs)]
fn with_state<T>(f: impl FnOnce(&mut State) -> T) -> T {
    let was = IN_TRACKER.try_with(|c| c.replace(true)).unwrap_or(true);
    LOCK.lock();
    // SAFETY: protected by LOCK.
    let state = unsafe {
        STATE.get_or_insert_with(|| State {
            blocks: BTreeMap::new(),
            quarantine: Vec::new(),
            in_run: false,
            epoch: 0,
            seq: 0,
            violations: Vec::new(),
            pin_reasons: BTreeMap::new(),
            epoch_blocks: Vec::new(),
            watches: Vec::new(),
        })
    };
    let r = f(state);
    LOCK.unlock();
    let _ = IN_TRACKER.try_with(|c| c.set(was));
    r
}

pub struct Tracker;

/// Every allocation is followed by a red zone, so a small heap overflow is
/// reported when the block is freed instead of corrupting the heap.
const REDZONE: usize = 32;
const RZ_BYTE: u8 = 0xFA;

fn padded(layout: Layout) -> Layout {
    // SAFETY: size + REDZONE cannot overflow isize for any real allocation.
    unsafe { Layout::from_size_align_unchecked(layout.size() + REDZONE, layout.align()) }
}

unsafe impl GlobalAlloc for Tracker {
    unsafe fn alloc(&self, layout: Layout) -> *mut u8 {
        let ptr = unsafe { System.alloc(padded(layout)) };
        if !ptr.is_null() {
            unsafe { std::ptr::write_bytes(ptr.add(layout.size()), RZ_BYTE, REDZONE) };
            if !in_tracker() {
                record_alloc(ptr as usize, layout);
            }
        }
        ptr
    }

    unsafe fn alloc_zeroed(&self, layout: Layout) -> *mut u8 {
        let ptr = unsafe { System.alloc_zeroed(padded(layout)) };
        if !ptr.is_null() {
            unsafe { std::ptr::write_bytes(ptr.add(layout.size()), RZ_BYTE, REDZONE) };
            if !in_tracker() {
                record_alloc(ptr as usize, layout);
            }
        }
        ptr
    }

    unsafe fn dealloc(&self, ptr: *mut u8, layout: Layout) {
        if !in_tracker() {
            let really_free = record_dealloc(ptr as usize, layout);
            if really_free {
                unsafe { System.dealloc(ptr, padded(layout)) };
            }
        } else {
            // Bookkeeping memory of the tracker itself, never recorded.
            unsafe { System.dealloc(ptr, padded(layout)) };
        }
    }

    unsafe fn realloc(&self, ptr: *mut u8, layout: Layout, new_size: usize) -> *mut u8 {
        // Always move, so an old address is never silently reused and a pinned
        // block being reallocated is visible as a dealloc of a pinned block.
        let new_layout = unsafe { Layout::from_size_align_unchecked(new_size, layout.align()) };
        let new = unsafe { self.alloc(new_layout) };
        if !new.is_null() {
            unsafe {
                std::ptr::copy_nonoverlapping(ptr, new, layout.size().min(new_size));
                self.dealloc(ptr, layout);
            }
        }
        new
    }
}

/// Debugging aid: `A10SIM_TRACE_ALLOC=<size>` prints a backtrace for every
/// non-harness allocation of that size.
static TRACE_SIZE: std::sync::atomic::AtomicUsize = std::sync::atomic::AtomicUsize::new(usize::MAX);

pub fn init_debug() {
    if let Some(n) = std::env::var("A10SIM_TRACE_ALLOC").ok().and_then(|s| s.parse().ok()) {
        TRACE_SIZE.store(n, Ordering::Relaxed);
    }
}

fn record_alloc(addr: usize, layout: Layout) {
    ALLOCS.fetch_add(1, Ordering::Relaxed);
    let scope = scope();
    if scope != Scope::Harness && layout.size() == TRACE_SIZE.load(Ordering::Relaxed) {
        let was = IN_TRACKER.try_with(|c| c.replace(true)).unwrap_or(true);
        eprintln!("ALLOC of {} bytes in {:?} scope:\n{}", layout.size(), scope, std::backtrace::Backtrace::force_capture());
        let _ = IN_TRACKER.try_with(|c| c.set(was));
    }
    with_state(|s| {
        s.seq += 1;
        let block = Block {
            size: layout.size(),
            align: layout.align(),
            state: BlockState::Live,
            scope,
            epoch: s.epoch,
            pins: 0,
            seq: s.seq,
        };
        s.blocks.insert(addr, block);
        if s.in_run && scope != Scope::Harness {
            s.epoch_blocks.push(addr);
        }
    });
}

/// Returns true if the memory should really be freed now.
fn record_dealloc(addr: usize, layout: Layout) -> bool {
    with_state(|s| {
        let in_run = s.in_run;
        if !s.watches.is_empty() {
            let end = addr + layout.size();
            let mut i = 0;
            while i < s.watches.len() {
                if s.watches[i].0 >= addr && s.watches[i].0 < end {
                    let (_, class, detail) = s.watches.swap_remove(i);
                    s.violations.push(AllocViolation { class, detail });
                } else {
                    i += 1;
                }
            }
        }
        match s.blocks.get_mut(&addr) {
            Some(block) if block.state == BlockState::Live => {
                let rz = unsafe { std::slice::from_raw_parts((addr + layout.size()) as *const u8, REDZONE) };
                if let Some(pos) = rz.iter().position(|b| *b != RZ_BYTE) {
                    s.violations.push(AllocViolation {
                        class: "mem.heap-overflow",
                        detail: format!(
                            "{} byte(s) past the end of an allocation of {} bytes were overwritten (first at +{pos})",
                            rz.iter().filter(|b| **b != RZ_BYTE).count(),
                            layout.size()
                        ),
                    });
                }
                if block.pins > 0 {
                    let reason = s.pin_reasons.get(&addr).cloned().unwrap_or_default();
                    s.violations.push(AllocViolation {
                        class: "mem.freed-while-kernel-owns",
                        detail: format!(
                            "block of {} bytes freed while pinned ({} pins): {}",
                            block.size, block.pins, reason
                        ),
                    });
                }
                if in_run {
                    block.state = BlockState::Freed;
                    // Poison so stale reads are visible in data oracles.
                    unsafe { std::ptr::write_bytes(addr as *mut u8, 0xDE, layout.size()) };
                    s.quarantine.push((addr, layout));
                    false
                } else {
                    s.blocks.remove(&addr);
                    true
                }
            }
            Some(block) => {
                // Freed already and still in quarantine.
                s.violations.push(AllocViolation {
                    class: "mem.double-free",
                    detail: format!("block of {} bytes (alloc #{}) freed twice", block.size, block.seq),
                });
                false
            }
            None => {
                // Allocated through a path we did not see (tracker's own
                // memory, or before the tracker was initialised).
                true
            }
        }
    })
}

/// Start a run: quarantine frees from now on.
pub fn begin_run() {
    with_state(|s| {
        s.in_run = true;
        s.epoch += 1;
        s.violations.clear();
        s.epoch_blocks.clear();
        s.watches.clear();
    });
}

/// End a run: really free everything in quarantine, drop pins.
pub fn end_run() {
    let quarantine = with_state(|s| {
        s.in_run = false;
        for (addr, _) in &s.quarantine {
            s.blocks.remove(addr);
        }
        let pinned: Vec<usize> = s.pin_reasons.keys().copied().collect();
        for base in pinned {
            if let Some(b) = s.blocks.get_mut(&base) {
                b.pins = 0;
            }
        }
        s.pin_reasons.clear();
        s.epoch_blocks.clear();
        std::mem::take(&mut s.quarantine)
    });
    for (addr, layout) in &quarantine {
        unsafe { System.dealloc(*addr as *mut u8, padded(*layout)) };
    }
}

/// Report `class` if the block containing `addr` is freed.
pub fn watch(addr: usize, class: &'static str, detail: String) {
    with_state(|s| s.watches.push((addr, class, detail)));
}

/// Stop watching everything.
pub fn unwatch_all() {
    with_state(|s| s.watches.clear());
}

pub fn take_violations() -> Vec<AllocViolation> {
    with_state(|s| std::mem::take(&mut s.violations))
}

/// Find the block containing `addr` (live or quarantined).
pub fn find(addr: usize) -> Option<(usize, Block)> {
    if addr == 0 {
        return None;
    }
    with_state(|s| {
        s.blocks
            .range(..=addr)
            .next_back()
            .filter(|(base, b)| addr < **base + b.size.max(1))
            .map(|(base, b)| (*base, b.clone()))
    })
}

/// Pin the block at `base` (must be live). Returns false if not live.
pub fn pin(base: usize, reason: &str) -> bool {
    with_state(|s| match s.blocks.get_mut(&base) {
        Some(b) if b.state == BlockState::Live => {
            b.pins += 1;
            if b.pins == 1 {
                let _ = s.pin_reasons.insert(base, reason.to_string());
            }
            true
        }
        _ => false,
    })
}

pub fn unpin(base: usize) {
    with_state(|s| {
        if let Some(b) = s.blocks.get_mut(&base) {
            if b.pins > 0 {
                b.pins -= 1;
            }
            if b.pins == 0 {
                s.pin_reasons.remove(&base);
            }
        }
    });
}

/// Blocks of the current epoch, allocated in a10 or resource scope, that are
/// still live. Returned as (size, scope, seq).
pub fn leaks() -> Vec<(usize, usize, Scope, u64)> {
    with_state(|s| {
        let epoch = s.epoch;
        s.epoch_blocks
            .iter()
            .filter_map(|a| s.blocks.get(a).map(|b| (*a, b)))
            .filter(|(_, b)| {
                b.state == BlockState::Live && b.epoch == epoch && b.scope != Scope::Harness
            })
            .map(|(a, b)| (a, b.size, b.scope, b.seq))
            .collect()
    })
}

/// Mark a block as harness-owned (exempt from leak checks), e.g. for objects
/// that a10 allocates once per process.
pub fn exempt(addr: usize) {
    with_state(|s| {
        if let Some(b) = s.blocks.get_mut(&addr) {
            b.scope = Scope::Harness;
        }
    });
}
