//! The simulated io_uring kernel (a STUB for Linux): rings in sim-owned memory,
//! in-flight table, completion scripting, cancellation, multishot, zero-copy,
//! provided-buffer rings, descriptor ledger, registration, SQPOLL,
//! DEFER_TASKRUN, CQ overflow, msg_ring and a simulated clock.

use std::collections::{BTreeMap, VecDeque};
use std::ffi::{c_int, c_void};
use std::sync::Mutex;
use std::sync::atomic::{AtomicU32, Ordering};

use crate::abi::*;
use crate::report::{harness_error, tag, trace, violation};
use crate::stats::{self, C};
use crate::tape::{self, site};
use crate::{alloc, ev};

pub const PAGE: usize = 4096;
/// Regular descriptors issued by the stub start here, far above any rlimit.
pub const FD_BASE: i32 = 0x3000_0000;
pub const NO_OP: u32 = u32::MAX;

/// What the publishing thread was doing when an SQE was published.
#[derive(Copy, Clone, Debug, Eq, PartialEq)]
pub enum During {
    Poll,
    Drop,
    Other,
}

/// Per run kernel configuration, drawn by the scenario (swarm style).
#[derive(Clone, Debug)]
pub struct KCfg {
    /// Percent of data transfers that are short / zero / errors / interrupted.
    pub p_short: u32,
    pub p_zero: u32,
    pub p_errno: u32,
    pub p_intr: u32,
    /// Kernel may act (post completions, consume in SQPOLL) at yield points,
    /// per mille.
    pub p_yield_act: u32,
    /// Weights for the cancel race: [wins, loses(EALREADY)].
    pub cancel_w: [u32; 2],
    /// Insert SKIP padding / stray user_data 0 completions.
    pub noise: bool,
    /// EINTR/EBUSY from io_uring_enter when nothing was submitted.
    pub enter_faults: bool,
    /// SQPOLL thread goes to sleep at drawn points.
    pub sqpoll_sleepy: bool,
    pub sq_start: u32,
    pub cq_start: u32,
    pub random_layout: bool,
    /// Complete ops while a10 waits in io_uring_enter, percent.
    pub p_complete_in_wait: u32,
    /// Percent chance a zero-copy send gets its notification.
    pub p_zc_notif_same_batch: u32,
    // Setup faults (C18).
    pub setup_fail: Option<i32>,
    pub feature_missing: u32,
    pub mmap_fail: Option<u32>,
    pub madvise_fail: Option<u32>,
    pub register_fail: Option<u32>,
    /// Percent chance a CLOSE fails with EIO (descriptor still closed).
    pub p_close_err: u32,
    /// Per cent: a request is refused at submission time (prep stage).
    pub p_prep_fail: u32,
    /// Per cent: the notification of a zero-copy send is still outstanding
    /// after IORING_REGISTER_SYNC_CANCEL (the network stack holds the pages).
    pub p_notif_survives: u32,
    /// A kernel older than 6.6: IORING_SETUP_NO_SQARRAY is refused (EINVAL);
    /// without the flag the submission index array is in use.
    pub old_kernel: bool,
    /// Per cent: the synchronous unregistration of a direct descriptor
    /// (REGISTER_FILES_UPDATE) is refused; the slot stays in use, which is
    /// then not a10's doing.
    pub p_sync_direct_close_refused: u32,
    /// The scenario uses pool buffers of one ring in requests of another on
    /// purpose: a request naming a group its ring does not know is expected
    /// (it ends with ENOBUFS) instead of a sign of a wrong group id.
    pub foreign_groups: bool,
    /// SYNC_CANCEL lets ops finish instead of cancelling, percent.
    pub p_sync_cancel_finish: u32,
    /// Percent chance IORING_OP_PIPE is "not supported" (EINVAL): a10 falls
    /// back to the real pipe2(2).
    pub p_pipe_einval: u32,
    pub pool_pick_any: bool,
}

impl Default for KCfg {
    fn default() -> KCfg {
        KCfg {
            p_short: 0,
            p_zero: 0,
            p_errno: 0,
            p_intr: 0,
            p_yield_act: 0,
            cancel_w: [1, 0],
            noise: false,
            enter_faults: false,
            sqpoll_sleepy: false,
            sq_start: 0,
            cq_start: 0,
            random_layout: false,
            p_complete_in_wait: 0,
            p_zc_notif_same_batch: 50,
            setup_fail: None,
            feature_missing: 0,
            mmap_fail: None,
            madvise_fail: None,
            register_fail: None,
            p_close_err: 0,
            p_prep_fail: 0,
            p_notif_survives: 0,
            old_kernel: false,
            p_sync_direct_close_refused: 0,
            foreign_groups: false,
            p_sync_cancel_finish: 0,
            p_pipe_einval: 0,
            pool_pick_any: false,
        }
    }
}

/// Sim-owned memory fenced by guard pages.
pub struct Mem {
    total: *mut u8,
    total_len: usize,
    pub base: *mut u8,
    pub len: usize,
    /// Length a10 passed to mmap, if currently mapped by a10.
    pub mapped: Option<usize>,
    pub maps: u32,
    pub unmaps: u32,
    pub dead: bool,
}

unsafe impl Send for Mem {}

impl Mem {
    fn new(len: usize) -> Mem {
        let len = len.div_ceil(PAGE).max(1) * PAGE;
        let total_len = len + 2 * PAGE;
        let total = unsafe {
            libc::mmap(
                std::ptr::null_mut(),
                total_len,
                libc::PROT_NONE,
                libc::MAP_PRIVATE | libc::MAP_ANONYMOUS,
                -1,
                0,
            )
        };
        assert!(total != libc::MAP_FAILED, "sim mmap failed");
        let base = unsafe { total.cast::<u8>().add(PAGE) };
        let r = unsafe { libc::mprotect(base.cast(), len, libc::PROT_READ | libc::PROT_WRITE) };
        assert!(r == 0);
        crate::segv::add_range(total as usize, total as usize + total_len);
        Mem {
            total: total.cast(),
            total_len,
            base,
            len,
            mapped: None,
            maps: 0,
            unmaps: 0,
            dead: false,
        }
    }

    fn contains(&self, addr: usize) -> bool {
        addr >= self.total as usize && addr < self.total as usize + self.total_len
    }

    /// a10 unmapped it: any later touch faults.
    fn kill(&mut self) {
        unsafe { libc::mprotect(self.base.cast(), self.len, libc::PROT_NONE) };
        self.dead = true;
    }
}

impl Drop for Mem {
    fn drop(&mut self) {
        crate::segv::remove_range(self.total as usize);
        unsafe { libc::munmap(self.total.cast(), self.total_len) };
    }
}

#[derive(Clone, Debug)]
pub struct RegionInfo {
    pub what: &'static str,
    pub addr: usize,
    pub len: usize,
    pub write: bool,
}

#[derive(Copy, Clone, Debug, Eq, PartialEq)]
pub enum OpClass {
    Read,
    Write,
    Readv,
    Writev,
    Recvmsg,
    Sendmsg,
    Accept,
    FdCreate,
    Pipe,
    FilesUpdate,
    FdInstall,
    Statx,
    Waitid,
    SockoptGet,
    SockoptSet,
    Sockname,
    AddrIn,
    Simple,
    Count,
    Poll,
    Close,
    Cancel,
    MsgRing,
}

/// Everything the kernel did for one consumed submission.
#[derive(Clone, Debug)]
pub struct OpRecord {
    pub kid: u32,
    pub ring: usize,
    pub tail_idx: u32,
    pub sqe: Sqe,
    pub user_data: u64,
    pub opcode: u8,
    pub class: OpClass,
    pub by_op: u32,
    pub during: During,
    pub multishot: bool,
    pub zc: bool,
    pub cqes: Vec<(i32, u32)>,
    /// Data written to user memory for each CQE (reads).
    pub wrote: Vec<Vec<u8>>,
    /// Data accepted from user memory (writes), only the `res` prefix.
    pub taken: Vec<u8>,
    pub done: bool,
    pub fds_issued: Vec<(i32, bool)>,
    pub regions: Vec<RegionInfo>,
    pub flags_seen: u32,
    pub offset_seen: u64,
    pub buf_ids: Vec<u16>,
    pub addr_written: Vec<u8>,
    /// Total length described by the request (bytes it could transfer).
    pub described: usize,
    pub cancel_target: u64,
}

pub(crate) struct Inflight {
    pub kid: u32,
    pub pins: Vec<usize>,
    /// Zero-copy: first CQE posted, notification pending.
    pub notif_pending: bool,
    pub more_posted: u32,
}

#[derive(Clone, Debug)]
pub struct FdInfo {
    /// An AsyncFd for it reached the application.
    pub delivered: bool,
    pub open: bool,
    pub closes: u32,
    pub issued_by: &'static str,
    pub kid: u32,
}

pub struct Pbuf {
    pub ring_addr: usize,
    pub entries: u16,
    pub head: u16,
    pub seen_tail: u16,
    pub base: Option<usize>,
    pub buf_size: u32,
    pub handed_out: Vec<u16>,
    pub pins: Vec<usize>,
    pub total_released: u64,
    /// The newest ring entry seen: (address, buffer id).
    pub last_entry: Option<(usize, u16)>,
    /// Unregistering was refused (single issuer): registered until the ring closes.
    pub refused: bool,
}

impl Pbuf {
    /// Buffer ids currently offered to the kernel.
    pub fn window(&self) -> Vec<u16> {
        let mask = self.entries - 1;
        let n = self.seen_tail.wrapping_sub(self.head);
        (0..n)
            .map(|i| unsafe {
                (self.ring_addr as *const Buf)
                    .add((self.head.wrapping_add(i) & mask) as usize)
                    .read()
                    .bid
            })
            .collect()
    }
}

#[derive(Clone, Debug)]
pub struct Published {
    pub idx: u32,
    pub sqe: Sqe,
    pub by_op: u32,
    pub during: During,
    /// Published before the harness started to drop a Ring.
    pub before_drop: bool,
}

pub struct Ring {
    pub id: usize,
    pub fd: i32,
    pub fd_closed: bool,
    pub flags: u32,
    pub sq_entries: u32,
    pub cq_entries: u32,
    pub sq_off: SqOff,
    pub cq_off: CqOff,
    pub sq_mem: Mem,
    pub cq_mem: Mem,
    pub sqes_mem: Mem,
    pub sq_head: u32,
    pub seen_sq_tail: u32,
    pub cq_tail: u32,
    pub seen_cq_head: u32,
    pub enabled: bool,
    pub sq_awake: bool,
    inflight: Vec<Inflight>,
    pub overflow: VecDeque<Cqe>,
    pub deferred: VecDeque<Cqe>,
    pub pbufs: BTreeMap<u16, Pbuf>,
    pub files: Option<Vec<Option<u32>>>,
    /// Direct slots holding a descriptor with special read semantics
    /// (signalfd): slot -> the descriptor it was registered from.
    pub slot_src: BTreeMap<u32, i32>,
    /// The only thread that may enter a single-issuer ring (if named).
    pub submitter: Option<usize>,
    /// Direct slots whose synchronous close the kernel refused.
    pub refused_slots: Vec<u32>,
    /// Number of io_uring_enter calls with IORING_ENTER_GETEVENTS.
    pub getevents_enters: u64,
    pub delivered_slots: Vec<u32>,
    pub published: VecDeque<Published>,
    pub posted: u64,
    pub delivered_hint: u64,
    pub dead: bool,
    pub attach_to: Option<i32>,
    pub params_seen: Params,
    pub sync_cancels: u32,
    pub msgs: u32,
    pub enters: u32,
}

pub struct Kernel {
    pub cfg: KCfg,
    pub rings: Vec<Ring>,
    pub records: Vec<OpRecord>,
    pub fds: BTreeMap<i32, FdInfo>,
    pub next_fd: i32,
    pub clock_ns: u64,
    pub mmap_calls: u32,
    pub madvise_calls: u32,
    pub register_calls: u32,
    pub setup_calls: u32,
    /// A blocking wait found nothing that could ever complete.
    pub stuck_waits: u32,
    pub timed_out_waits: u32,
    pub std_closes: Vec<i32>,
    /// Streams: data returned by reads per descriptor.
    pub scripts: BTreeMap<i32, VecDeque<Vec<u8>>>,
    /// Scripted result sizes (composite scenario): per descriptor queue of
    /// counts; when present overrides the drawn size.
    pub counts: BTreeMap<i32, VecDeque<i64>>,
    pub stream_pos: BTreeMap<i32, u64>,
    pub guard_page: usize,
    /// Harness operations that were dropped (abandoned or finished).
    pub dropped_ops: Vec<u32>,
    /// Real descriptors (inotify, signalfd) owned by AsyncFds: closed for
    /// real when a10 closes them through the ring.
    pub foreign_fds: Vec<i32>,
    /// Memory ranges the application still holds references into: a request
    /// that lets the kernel write there is reported (class, detail).
    pub held_ranges: Vec<(usize, usize, String)>,
    /// Descriptors whose reads are all-or-nothing (signalfd: the kernel only
    /// ever returns whole records).
    pub full_only: Vec<i32>,
    /// The application is inside `Ring::drop`.
    pub in_ring_drop: bool,
    /// Set by `submit` when the request was refused at submission time.
    pub prep_refused: bool,
    /// The harness has started to drop a Ring in this run.
    pub ring_drop_seen: bool,
    /// Blocks (operation state, buffers) of requests the kernel still owned
    /// after the Ring was dropped, and how many such requests there were.
    pub survivor_blocks: Vec<usize>,
    pub survivor_ops: usize,
    /// Requests of these harness operations never complete on their own (a
    /// read from an empty pipe): only cancellation ends them.
    pub silent_by_op: Vec<u32>,
    /// Harness operations on which a builder method was called after the first
    /// poll: if that lands while a restart waits for queue space the library
    /// accepts it, and the re-issued request legitimately differs.
    pub late_builder_ops: Vec<u32>,
    /// Kernel waits (blocking part of io_uring_enter) of multi-threaded
    /// runs: (thread, start stamp, end stamp, expired).
    pub wait_log: Vec<(usize, u64, u64, bool)>,
}

/// Global logical clock (event sequence numbers, not time).
pub static SEQ: std::sync::atomic::AtomicU64 = std::sync::atomic::AtomicU64::new(0);

pub fn stamp() -> u64 {
    SEQ.fetch_add(1, Ordering::AcqRel)
}

static KERNEL: Mutex<Option<Kernel>> = Mutex::new(None);
thread_local! {
    /// The harness op (and mode) the current thread is working on.
    pub static CUR_OP: std::cell::Cell<(u32, During)> = const { std::cell::Cell::new((NO_OP, During::Other)) };
}
pub static POISON_ADDR: AtomicU32 = AtomicU32::new(0);

pub fn set_cur(op: u32, during: During) -> (u32, During) {
    CUR_OP.with(|c| c.replace((op, during)))
}

pub fn cur_op() -> u32 {
    CUR_OP.with(std::cell::Cell::get).0
}

pub fn with<T>(f: impl FnOnce(&mut Kernel) -> T) -> T {
    alloc::harness(|| {
        let mut g = match KERNEL.lock() {
            Ok(g) => g,
            Err(e) => e.into_inner(),
        };
        let k = g.as_mut().expect("kernel not initialised");
        f(k)
    })
}

/// Reset the kernel for a new run.
pub fn reset(cfg: KCfg) {
    alloc::harness(|| {
        let mut g = match KERNEL.lock() {
            Ok(g) => g,
            Err(e) => e.into_inner(),
        };
        if let Some(old) = g.take() {
            for fd in &old.foreign_fds {
                unsafe { libc::close(*fd) };
            }
            for ring in &old.rings {
                if !ring.fd_closed && unsafe { libc::fcntl(ring.fd, libc::F_GETFD) } != -1 {
                    // Leftover from a run that leaked its ring, close it.
                    unsafe { libc::close(ring.fd) };
                }
            }
            drop(old);
        }
        *g = Some(Kernel {
            cfg,
            rings: Vec::new(),
            records: Vec::new(),
            fds: BTreeMap::new(),
            next_fd: FD_BASE,
            clock_ns: 0,
            mmap_calls: 0,
            madvise_calls: 0,
            register_calls: 0,
            setup_calls: 0,
            stuck_waits: 0,
            timed_out_waits: 0,
            std_closes: Vec::new(),
            scripts: BTreeMap::new(),
            counts: BTreeMap::new(),
            stream_pos: BTreeMap::new(),
            guard_page: crate::segv::poison_page(),
            dropped_ops: Vec::new(),
            foreign_fds: Vec::new(),
            held_ranges: Vec::new(),
            full_only: Vec::new(),
            in_ring_drop: false,
            prep_refused: false,
            ring_drop_seen: false,
            survivor_blocks: Vec::new(),
            survivor_ops: 0,
            silent_by_op: Vec::new(),
            late_builder_ops: Vec::new(),
            wait_log: Vec::new(),
        });
        SEQ.store(0, Ordering::Release);
    });
}

fn set_errno(e: i32) {
    unsafe { *libc::__errno_location() = e };
}

fn fail(e: i32) -> c_int {
    set_errno(e);
    -1
}

unsafe fn load32(p: *mut u8) -> u32 {
    unsafe { (*p.cast::<AtomicU32>()).load(Ordering::Acquire) }
}

unsafe fn store32(p: *mut u8, v: u32) {
    unsafe { (*p.cast::<AtomicU32>()).store(v, Ordering::Release) }
}

impl Ring {
    fn sq_tail_shared(&self) -> u32 {
        unsafe { load32(self.sq_mem.base.add(self.sq_off.tail as usize)) }
    }
    fn cq_head_shared(&self) -> u32 {
        unsafe { load32(self.cq_mem.base.add(self.cq_off.head as usize)) }
    }
    pub(crate) fn set_sq_flag(&self, flag: u32, on: bool) {
        if self.sq_mem.dead {
            return;
        }
        unsafe {
            let p = self.sq_mem.base.add(self.sq_off.flags as usize);
            let v = load32(p);
            store32(p, if on { v | flag } else { v & !flag });
        }
    }
    fn cqe_slot(&self, idx: u32) -> *mut Cqe {
        unsafe {
            self.cq_mem
                .base
                .add(self.cq_off.cqes as usize)
                .cast::<Cqe>()
                .add((idx & (self.cq_entries - 1)) as usize)
        }
    }
    fn sqe_slot(&self, idx: u32) -> *mut Sqe {
        unsafe {
            self.sqes_mem
                .base
                .cast::<Sqe>()
                .add((idx & (self.sq_entries - 1)) as usize)
        }
    }
    pub fn sqpoll(&self) -> bool {
        self.flags & SETUP_SQPOLL != 0
    }
    pub fn defer_taskrun(&self) -> bool {
        self.flags & SETUP_DEFER_TASKRUN != 0
    }
    pub(crate) fn inflight_push(&mut self, kid: u32, pins: Vec<usize>) {
        self.inflight.push(Inflight {
            kid,
            pins,
            notif_pending: false,
            more_posted: 0,
        });
    }
    pub(crate) fn inflight_find(&self, f: impl Fn(u32) -> bool) -> Option<u32> {
        self.inflight.iter().map(|i| i.kid).find(|k| f(*k))
    }
    pub(crate) fn inflight_notif_pending(&self, kid: u32) -> bool {
        self.inflight.iter().any(|i| i.kid == kid && i.notif_pending)
    }
    pub(crate) fn inflight_pins(&self, kid: u32) -> Vec<usize> {
        self.inflight.iter().find(|i| i.kid == kid).map_or_else(Vec::new, |i| i.pins.clone())
    }
    pub(crate) fn inflight_take(&mut self, kid: u32) -> Option<Inflight> {
        let pos = self.inflight.iter().position(|i| i.kid == kid)?;
        Some(self.inflight.remove(pos))
    }
    pub(crate) fn inflight_set_notif(&mut self, kid: u32) {
        if let Some(i) = self.inflight.iter_mut().find(|i| i.kid == kid) {
            i.notif_pending = true;
        }
    }
    pub(crate) fn inflight_more(&mut self, kid: u32) {
        if let Some(i) = self.inflight.iter_mut().find(|i| i.kid == kid) {
            i.more_posted += 1;
        }
    }
    pub fn inflight_count(&self) -> usize {
        self.inflight.len()
    }
    pub fn inflight_kids(&self) -> Vec<u32> {
        self.inflight.iter().map(|i| i.kid).collect()
    }
    /// Completions a10 can see right now.
    pub fn cq_ready(&self) -> u32 {
        if self.cq_mem.dead {
            return 0;
        }
        self.cq_tail.wrapping_sub(self.cq_head_shared())
    }
    pub fn sq_pending(&self) -> u32 {
        if self.sq_mem.dead {
            return 0;
        }
        self.sq_tail_shared().wrapping_sub(self.sq_head)
    }
}

fn poison_cqe(k: &Kernel) -> Cqe {
    Cqe {
        user_data: k.guard_page as u64,
        res: 0x7fff_fff0,
        flags: 0,
    }
}

impl Kernel {
    pub fn ring_by_fd(&self, fd: i32) -> Option<usize> {
        self.rings
            .iter()
            .rposition(|r| r.fd == fd && !r.fd_closed)
    }

    pub fn issue_fd(&mut self, by: &'static str, kid: u32) -> i32 {
        let fd = self.next_fd;
        self.next_fd += 1;
        self.fds.insert(
            fd,
            FdInfo {
                delivered: by == "harness",
                open: true,
                closes: 0,
                issued_by: by,
                kid,
            },
        );
        fd
    }

    /// The application received an `AsyncFd` for this descriptor.
    pub fn mark_delivered(&mut self, ring: usize, n: i32, direct: bool) {
        if direct {
            self.rings[ring].delivered_slots.push(n as u32);
        } else if let Some(i) = self.fds.get_mut(&n) {
            i.delivered = true;
        }
    }

    /// Open descriptors that never reached the application although the
    /// operation they were created for was dropped: (fd, is_direct).
    pub fn undelivered_to_dropped(&self, ring: usize) -> Vec<(i32, bool)> {
        let dropped = |kid: u32| {
            kid != NO_OP
                && self
                    .records
                    .get(kid as usize)
                    .is_some_and(|r| self.dropped_ops.contains(&r.by_op))
        };
        let mut v: Vec<(i32, bool)> = self
            .fds
            .iter()
            .filter(|(_, i)| i.open && !i.delivered && dropped(i.kid))
            .map(|(fd, _)| (*fd, false))
            .collect();
        if let Some(t) = &self.rings[ring].files {
            for (slot, e) in t.iter().enumerate() {
                if let Some(kid) = e {
                    if !self.rings[ring].delivered_slots.contains(&(slot as u32)) && dropped(*kid) {
                        v.push((slot as i32, true));
                    }
                }
            }
        }
        v
    }

    pub fn open_fds(&self) -> Vec<i32> {
        self.fds
            .iter()
            .filter(|(_, i)| i.open)
            .map(|(fd, _)| *fd)
            .collect()
    }

    pub fn open_slots(&self, ring: usize) -> Vec<u32> {
        match &self.rings[ring].files {
            Some(t) => t
                .iter()
                .enumerate()
                .filter(|(i, s)| s.is_some() && !self.rings[ring].refused_slots.contains(&(*i as u32)))
                .map(|(i, _)| i as u32)
                .collect(),
            None => Vec::new(),
        }
    }

    pub(crate) fn close_regular(&mut self, fd: i32, how: &str) -> i32 {
        if (0..=2).contains(&fd) {
            violation(
                "fd.std-stream",
                format!("standard stream {fd} closed via {how}"),
            );
            self.std_closes.push(fd);
            return 0;
        }
        if let Some(pos) = self.foreign_fds.iter().position(|f| *f == fd) {
            self.foreign_fds.swap_remove(pos);
            unsafe { libc::close(fd) };
            ev!("k close real descriptor via {how}");
            return 0;
        }
        match self.fds.get_mut(&fd) {
            Some(info) if info.open => {
                info.open = false;
                info.closes += 1;
                ev!("k close fd#{} via {how}", fd - FD_BASE);
                0
            }
            Some(info) => {
                info.closes += 1;
                violation(
                    "fd.double-close",
                    format!("descriptor fd#{} closed again via {how}", fd - FD_BASE),
                );
                -libc::EBADF
            }
            None => {
                violation(
                    "fd.wrong-kind",
                    format!("close of descriptor {fd} the kernel never issued, via {how}"),
                );
                -libc::EBADF
            }
        }
    }

    pub(crate) fn close_direct(&mut self, ring: usize, slot: u32, how: &str) -> i32 {
        let Some(table) = &mut self.rings[ring].files else {
            violation(
                "fd.wrong-kind",
                format!("direct close of slot {slot} via {how} without a descriptor table"),
            );
            return -libc::ENXIO;
        };
        match table.get_mut(slot as usize) {
            Some(s @ Some(_)) => {
                *s = None;
                self.rings[ring].slot_src.remove(&slot);
                stats::inc(C::probe_direct_close);
                ev!("k close direct slot {slot} via {how}");
                self.rings[ring].delivered_slots.retain(|x| *x != slot);
                0
            }
            Some(None) => {
                violation(
                    "fd.double-close",
                    format!("direct slot {slot} closed via {how} but it is not open"),
                );
                -libc::EBADF
            }
            None => {
                violation(
                    "fd.wrong-kind",
                    format!("direct slot {slot} out of range via {how}"),
                );
                -libc::EINVAL
            }
        }
    }

    pub(crate) fn alloc_slot(&mut self, ring: usize, kid: u32) -> Result<u32, i32> {
        let Some(table) = &mut self.rings[ring].files else {
            return Err(libc::ENXIO);
        };
        match table.iter().position(Option::is_none) {
            Some(i) => {
                table[i] = Some(kid);
                Ok(i as u32)
            }
            None => Err(libc::ENFILE),
        }
    }

    // ---------------------------------------------------------------- setup

    fn setup(&mut self, entries: u32, params: *mut Params) -> c_int {
        self.setup_calls += 1;
        let mut p = unsafe { params.read() };
        ev!("k setup entries={entries} flags={:#x} cq={}", p.flags, p.cq_entries);
        if let Some(e) = self.cfg.setup_fail {
            stats::inc(C::fault_setup_fail);
            return fail(e);
        }
        if p.resv != [0; 3] {
            return fail(libc::EINVAL);
        }
        if self.cfg.old_kernel && p.flags & SETUP_NO_SQARRAY != 0 {
            stats::inc(C::fault_old_kernel);
            ev!("k setup -> EINVAL (this kernel does not know IORING_SETUP_NO_SQARRAY)");
            return fail(libc::EINVAL);
        }
        let known = SETUP_IOPOLL
            | SETUP_SQPOLL
            | SETUP_SQ_AFF
            | SETUP_CQSIZE
            | SETUP_CLAMP
            | SETUP_ATTACH_WQ
            | SETUP_R_DISABLED
            | SETUP_SUBMIT_ALL
            | SETUP_COOP_TASKRUN
            | SETUP_TASKRUN_FLAG
            | SETUP_SINGLE_ISSUER
            | SETUP_DEFER_TASKRUN
            | SETUP_NO_SQARRAY;
        if p.flags & !known != 0 {
            return fail(libc::EINVAL);
        }
        let mut sq = entries;
        if sq == 0 {
            return fail(libc::EINVAL);
        }
        if sq > 32768 {
            if p.flags & SETUP_CLAMP == 0 {
                return fail(libc::EINVAL);
            }
            sq = 32768;
        }
        let sq = sq.next_power_of_two();
        let cq = if p.flags & SETUP_CQSIZE != 0 {
            let mut cq = p.cq_entries;
            if cq == 0 {
                return fail(libc::EINVAL);
            }
            if cq > 65536 {
                if p.flags & SETUP_CLAMP == 0 {
                    return fail(libc::EINVAL);
                }
                cq = 65536;
            }
            let cq = cq.next_power_of_two();
            if cq < sq {
                return fail(libc::EINVAL);
            }
            cq
        } else {
            2 * sq
        };
        if p.flags & SETUP_SQ_AFF != 0 && p.flags & SETUP_SQPOLL == 0 {
            return fail(libc::EINVAL);
        }
        if p.flags & SETUP_SQPOLL != 0
            && p.flags & (SETUP_COOP_TASKRUN | SETUP_TASKRUN_FLAG | SETUP_DEFER_TASKRUN) != 0
        {
            return fail(libc::EINVAL);
        }
        if p.flags & SETUP_DEFER_TASKRUN != 0 && p.flags & SETUP_SINGLE_ISSUER == 0 {
            return fail(libc::EINVAL);
        }
        if p.flags & SETUP_SQ_AFF != 0 && p.sq_thread_cpu >= 16 {
            return fail(libc::EINVAL);
        }
        let mut attach_to = None;
        if p.flags & SETUP_ATTACH_WQ != 0 {
            match self.ring_by_fd(p.wq_fd as i32) {
                Some(_) => attach_to = Some(p.wq_fd as i32),
                None => return fail(libc::EBADF),
            }
        }

        // Layout of the rings: the one observed on Linux 6.18 or a random one.
        let (sq_off, cq_off) = if self.cfg.random_layout {
            let mut slots: Vec<u32> = (0..16).map(|i| i * 4).collect();
            let mut take = |slots: &mut Vec<u32>| {
                let i = tape::choose(site::GEOM, slots.len() as u32) as usize;
                slots.remove(i)
            };
            let sq_off = SqOff {
                head: take(&mut slots),
                tail: take(&mut slots),
                flags: take(&mut slots),
                dropped: take(&mut slots),
                ring_mask: take(&mut slots),
                ring_entries: take(&mut slots),
                array: 0,
                resv1: 0,
                user_addr: 0,
            };
            let mut slots: Vec<u32> = (0..16).map(|i| i * 4).collect();
            let cq_off = CqOff {
                head: take(&mut slots),
                tail: take(&mut slots),
                overflow: take(&mut slots),
                flags: take(&mut slots),
                ring_mask: take(&mut slots),
                ring_entries: take(&mut slots),
                cqes: 64 + 16 * tape::choose(site::GEOM, 8),
                resv1: 0,
                user_addr: 0,
            };
            (sq_off, cq_off)
        } else {
            (
                SqOff {
                    head: 0,
                    tail: 4,
                    ring_mask: 16,
                    ring_entries: 24,
                    flags: 36,
                    dropped: 32,
                    array: 0,
                    resv1: 0,
                    user_addr: 0,
                },
                CqOff {
                    head: 8,
                    tail: 12,
                    ring_mask: 20,
                    ring_entries: 28,
                    overflow: 44,
                    cqes: 64,
                    flags: 40,
                    resv1: 0,
                    user_addr: 0,
                },
            )
        };

        // Without NO_SQARRAY the kernel takes the index of the next entry from
        // an array of `sq` words behind the ring words (all zero at first).
        let mut sq_off = sq_off;
        if p.flags & SETUP_NO_SQARRAY == 0 {
            sq_off.array = 256;
        }
        let fd = unsafe { libc::eventfd(0, libc::EFD_CLOEXEC) };
        if fd < 0 {
            return fail(libc::ENFILE);
        }
        // A previous ring with this number must have been closed by a10.
        for r in &mut self.rings {
            if r.fd == fd && !r.fd_closed {
                r.fd_closed = true;
            }
        }

        let id = self.rings.len();
        let mut ring = Ring {
            id,
            fd,
            fd_closed: false,
            flags: p.flags,
            sq_entries: sq,
            cq_entries: cq,
            sq_off,
            cq_off,
            sq_mem: Mem::new(256 + sq as usize * 4),
            cq_mem: Mem::new(cq_off.cqes as usize + cq as usize * 16),
            sqes_mem: Mem::new(sq as usize * 64),
            sq_head: self.cfg.sq_start,
            seen_sq_tail: self.cfg.sq_start,
            cq_tail: self.cfg.cq_start,
            seen_cq_head: self.cfg.cq_start,
            enabled: p.flags & SETUP_R_DISABLED == 0,
            sq_awake: true,
            inflight: Vec::new(),
            overflow: VecDeque::new(),
            deferred: VecDeque::new(),
            pbufs: BTreeMap::new(),
            files: None,
            slot_src: BTreeMap::new(),
            submitter: None,
            refused_slots: Vec::new(),
            getevents_enters: 0,
            delivered_slots: Vec::new(),
            published: VecDeque::new(),
            posted: 0,
            delivered_hint: 0,
            dead: false,
            attach_to,
            params_seen: p,
            sync_cancels: 0,
            msgs: 0,
            enters: 0,
        };
        if self.cfg.sq_start != 0 || self.cfg.cq_start != 0 {
            stats::inc(C::fault_counter_wrap_start);
        }
        unsafe {
            let sqb = ring.sq_mem.base;
            store32(sqb.add(sq_off.head as usize), ring.sq_head);
            store32(sqb.add(sq_off.tail as usize), ring.sq_head);
            store32(sqb.add(sq_off.ring_mask as usize), sq - 1);
            store32(sqb.add(sq_off.ring_entries as usize), sq);
            store32(sqb.add(sq_off.flags as usize), 0);
            let cqb = ring.cq_mem.base;
            store32(cqb.add(cq_off.head as usize), ring.cq_tail);
            store32(cqb.add(cq_off.tail as usize), ring.cq_tail);
            store32(cqb.add(cq_off.ring_mask as usize), cq - 1);
            store32(cqb.add(cq_off.ring_entries as usize), cq);
            let poison = poison_cqe(self);
            for i in 0..cq {
                ring.cqe_slot(i).write(poison);
            }
            std::ptr::write_bytes(ring.sqes_mem.base, 0xA5, sq as usize * 64);
        }
        ring.sq_awake = true;

        p.sq_entries = sq;
        p.cq_entries = cq;
        p.features = FEAT_ALL & !self.cfg.feature_missing;
        if self.cfg.feature_missing != 0 {
            stats::inc(C::fault_feature_missing);
        }
        p.sq_off = sq_off;
        p.cq_off = cq_off;
        unsafe { params.write(p) };
        ev!("k setup -> ring#{id} sq={sq} cq={cq}");
        self.rings.push(ring);
        fd
    }

    // ----------------------------------------------------------------- mmap

    fn mmap(&mut self, len: usize, _prot: c_int, _flags: c_int, fd: c_int, off: i64) -> Option<*mut c_void> {
        let r = self.ring_by_fd(fd)?;
        self.mmap_calls += 1;
        let n = self.mmap_calls;
        if self.cfg.mmap_fail == Some(n) {
            stats::inc(C::fault_mmap_fail);
            ev!("k mmap #{n} -> ENOMEM (injected)");
            set_errno(libc::ENOMEM);
            return Some(libc::MAP_FAILED);
        }
        let ring = &mut self.rings[r];
        // The last byte of each region the application has to reach.
        let needed = match off {
            OFF_SQ_RING => {
                let o = &ring.sq_off;
                [o.head, o.tail, o.ring_mask, o.ring_entries, o.flags, o.dropped].into_iter().max().unwrap_or(0) as usize + 4
            }
            OFF_CQ_RING => {
                let o = &ring.cq_off;
                let words = [o.head, o.tail, o.ring_mask, o.ring_entries, o.overflow, o.flags].into_iter().max().unwrap_or(0) as usize + 4;
                words.max(o.cqes as usize + 16 * ring.cq_entries as usize)
            }
            _ => 64 * ring.sq_entries as usize,
        };
        let mem = match off {
            OFF_SQ_RING => &mut ring.sq_mem,
            OFF_CQ_RING => &mut ring.cq_mem,
            OFF_SQES => &mut ring.sqes_mem,
            _ => {
                set_errno(libc::EINVAL);
                return Some(libc::MAP_FAILED);
            }
        };
        if len == 0 || len > mem.len {
            set_errno(libc::EINVAL);
            return Some(libc::MAP_FAILED);
        }
        if mem.mapped.is_some() || mem.dead {
            harness_error(format!("ring#{r} region {off:#x} mapped twice"));
        }
        // A prefix may be mapped, but what lies behind its last page is out of
        // the application's reach (the real kernel maps whole pages).
        let pages = |n: usize| n.div_ceil(4096);
        if pages(len) < pages(needed.min(mem.len)) {
            violation(
                "build.short-mapping",
                format!(
                    "ring#{r} region {off:#x}: {len} bytes mapped, the application needs {needed}: what lies behind page {} can never be read or written",
                    pages(len)
                ),
            );
        }
        mem.mapped = Some(len);
        mem.maps += 1;
        ev!("k mmap ring#{r} off={off:#x} len={len}");
        Some(mem.base.cast())
    }

    fn find_mem(&mut self, addr: usize) -> Option<(usize, &mut Mem)> {
        for ring in &mut self.rings {
            let id = ring.id;
            for mem in [&mut ring.sq_mem, &mut ring.cq_mem, &mut ring.sqes_mem] {
                if mem.contains(addr) {
                    return Some((id, mem));
                }
            }
        }
        None
    }

    fn madvise(&mut self, addr: *mut c_void, _len: usize, _advice: c_int) -> Option<c_int> {
        self.find_mem(addr as usize)?;
        self.madvise_calls += 1;
        if self.cfg.madvise_fail == Some(self.madvise_calls) {
            stats::inc(C::fault_madvise_fail);
            ev!("k madvise #{} -> EAGAIN (injected)", self.madvise_calls);
            return Some(fail(libc::EAGAIN));
        }
        Some(0)
    }

    fn munmap(&mut self, addr: *mut c_void, len: usize) -> Option<c_int> {
        let (id, mem) = self.find_mem(addr as usize)?;
        if addr as usize != mem.base as usize {
            violation(
                "teardown.mmap-imbalance",
                format!("munmap of ring#{id} memory at an address that is not a mapping base"),
            );
            return Some(fail(libc::EINVAL));
        }
        match mem.mapped {
            Some(l) if l == len => {}
            Some(l) => violation(
                "teardown.mmap-imbalance",
                format!("ring#{id} mapping of {l} bytes unmapped with length {len}"),
            ),
            None => violation(
                "teardown.mmap-imbalance",
                format!("ring#{id} mapping unmapped twice (len {len})"),
            ),
        }
        mem.mapped = None;
        mem.unmaps += 1;
        mem.kill();
        ev!("k munmap ring#{id} len={len}");
        Some(0)
    }

    // ---------------------------------------------------------------- rings

    /// Observe what a10 did to the shared counters; re-poison released CQ
    /// slots.
    pub fn observe(&mut self, r: usize) {
        let poison = poison_cqe(self);
        let ring = &mut self.rings[r];
        if !ring.cq_mem.dead {
            let head = ring.cq_head_shared();
            if head != ring.seen_cq_head {
                let adv = head.wrapping_sub(ring.seen_cq_head);
                let avail = ring.cq_tail.wrapping_sub(ring.seen_cq_head);
                if adv > avail {
                    violation(
                        "cq.head-passed-tail",
                        format!(
                            "ring#{r}: completion head moved by {adv} with only {avail} published"
                        ),
                    );
                } else {
                    for i in 0..adv {
                        unsafe { ring.cqe_slot(ring.seen_cq_head.wrapping_add(i)).write(poison) };
                    }
                    if head < ring.seen_cq_head {
                        stats::inc(C::probe_cq_counter_wrapped);
                    }
                }
                ring.seen_cq_head = head;
            }
        }
        if !ring.sq_mem.dead {
            let tail = ring.sq_tail_shared();
            if tail != ring.seen_sq_tail {
                if tail < ring.seen_sq_tail {
                    stats::inc(C::probe_sq_counter_wrapped);
                }
                ring.seen_sq_tail = tail;
            }
            let pending = tail.wrapping_sub(ring.sq_head);
            if pending > ring.sq_entries {
                violation(
                    "sq.overrun",
                    format!(
                        "ring#{r}: {pending} unconsumed submissions in a queue of {}",
                        ring.sq_entries
                    ),
                );
            }
        }
    }

    /// a10 just published a submission (hook after the tail store).
    fn on_sq_published(&mut self, tail_addr: usize) {
        let Some(r) = self.rings.iter().position(|r| {
            !r.sq_mem.dead && r.sq_mem.base as usize + r.sq_off.tail as usize == tail_addr
        }) else {
            return;
        };
        let (op, during) = CUR_OP.with(std::cell::Cell::get);
        let before_drop = !self.ring_drop_seen;
        let ring = &mut self.rings[r];
        let tail = ring.sq_tail_shared();
        let idx = tail.wrapping_sub(1);
        let pending = tail.wrapping_sub(ring.sq_head);
        if pending > ring.sq_entries {
            violation(
                "sq.overrun",
                format!(
                    "ring#{r}: tail published with {pending} unconsumed submissions in a queue of {}",
                    ring.sq_entries
                ),
            );
            return;
        }
        let expected_idx = ring
            .published
            .back()
            .map_or(ring.sq_head, |p| p.idx.wrapping_add(1));
        if idx != expected_idx {
            violation(
                "sq.lost",
                format!(
                    "ring#{r}: tail moved to {tail}, expected the next entry to be #{expected_idx}"
                ),
            );
        }
        let sqe = unsafe { ring.sqe_slot(idx).read() };
        ring.published.push_back(Published {
            idx,
            sqe,
            by_op: op,
            during,
            before_drop,
        });
        ring.seen_sq_tail = tail;
        if tail == 0 {
            stats::inc(C::probe_sq_counter_wrapped);
        }
        stats::inc(C::total_sqes);
        ev!(
            "a publish sqe#{idx} {} by op#{} {:?}",
            op_name(sqe.opcode()),
            if op == NO_OP { -1 } else { op as i64 },
            during
        );
    }

    /// Consume up to `max` submissions of ring `r`. Returns the number consumed.
    pub fn consume(&mut self, r: usize, max: u32) -> u32 {
        if self.rings[r].sq_mem.dead || self.rings[r].sqes_mem.dead {
            return 0;
        }
        self.observe(r);
        let mut n = 0;
        while n < max {
            let ring = &mut self.rings[r];
            let tail = ring.sq_tail_shared();
            let pending = tail.wrapping_sub(ring.sq_head);
            if pending == 0 || pending > ring.sq_entries {
                break;
            }
            let idx = ring.sq_head;
            // With an index array the entry to run is array[head & mask].
            let slot = if ring.sq_off.array != 0 {
                unsafe {
                    ring.sq_mem
                        .base
                        .add(ring.sq_off.array as usize + 4 * (idx & (ring.sq_entries - 1)) as usize)
                        .cast::<u32>()
                        .read_volatile()
                }
            } else {
                idx
            };
            let sqe = unsafe { ring.sqe_slot(slot).read() };
            // Scribble over the consumed slot: a10 must not rely on its contents.
            if ring.sq_off.array == 0 {
                unsafe { std::ptr::write_bytes(ring.sqe_slot(idx).cast::<u8>(), 0xA5, 64) };
            }
            ring.sq_head = idx.wrapping_add(1);
            unsafe { store32(ring.sq_mem.base.add(ring.sq_off.head as usize), ring.sq_head) };
            let published = match ring.published.front() {
                Some(p) if p.idx == idx => ring.published.pop_front(),
                _ => None,
            };
            let (by_op, during) = match &published {
                Some(p) => {
                    if p.sqe != sqe {
                        violation(
                            "sq.torn",
                            format!(
                                "ring#{r}: entry #{idx} ({}) changed between publication and consumption",
                                op_name(p.sqe.opcode())
                            ),
                        );
                    }
                    (p.by_op, p.during)
                }
                None => (NO_OP, During::Other),
            };
            n += 1;
            crate::sched::progress();
            self.prep_refused = false;
            self.submit(r, idx, sqe, by_op, during);
            if self.prep_refused && self.rings[r].flags & SETUP_SUBMIT_ALL == 0 {
                // io_submit_sqes: without IORING_SETUP_SUBMIT_ALL the batch ends at
                // the first request refused at submission time; the rest of
                // the queue waits for a later io_uring_enter.
                ev!("k ring#{r}: submission stops after the refused request (no SUBMIT_ALL)");
                break;
            }
        }
        if n > 0 {
            trace(&[tag::CONSUME, n]);
        }
        n
    }

    /// C04, at the end of a run in which the Ring was dropped: everything
    /// accepted into the submission queue before the drop started has reached
    /// the kernel (`Ring::drop` submits what is queued).
    pub fn check_lost_submissions(&self, r: usize) {
        if !self.ring_drop_seen || self.rings[r].sq_mem.dead && self.rings[r].published.is_empty() {
            return;
        }
        let lost: Vec<String> = self.rings[r]
            .published
            .iter()
            .filter(|p| p.before_drop)
            .map(|p| format!("#{} {}", p.idx, op_name(p.sqe.opcode())))
            .collect();
        if !lost.is_empty() {
            violation(
                "sq.lost",
                format!(
                    "ring#{r}: {} submission(s) accepted before the Ring was dropped never reached the kernel: {}",
                    lost.len(),
                    lost.join(", ")
                ),
            );
        }
    }

    pub fn record(&self, kid: u32) -> &OpRecord {
        &self.records[kid as usize]
    }

    /// Post a completion to ring `r`.
    pub fn post(&mut self, r: usize, cqe: Cqe) {
        stats::inc(C::total_cqes);
        let ring = &mut self.rings[r];
        ring.posted += 1;
        if ring.defer_taskrun() {
            stats::inc(C::fault_defer_taskrun_hold);
            ring.deferred.push_back(cqe);
            return;
        }
        self.post_now(r, cqe);
    }

    /// A completion produced while the request is being submitted (refused at
    /// prep, CLOSE, cancel and msg_ring results): it is not task work, so a
    /// DEFER_TASKRUN ring sees it at once.
    pub fn post_inline(&mut self, r: usize, cqe: Cqe) {
        stats::inc(C::total_cqes);
        self.rings[r].posted += 1;
        self.post_now(r, cqe);
    }

    fn post_now(&mut self, r: usize, cqe: Cqe) {
        crate::sched::progress();
        self.observe(r);
        let ring = &mut self.rings[r];
        if ring.cq_mem.dead {
            // Nobody can see the completion queue any more.
            return;
        }
        let used = ring.cq_tail.wrapping_sub(ring.seen_cq_head);
        if !ring.overflow.is_empty() || used >= ring.cq_entries {
            stats::inc(C::fault_cq_overflow);
            crate::report::nontrivial();
            ring.overflow.push_back(cqe);
            ring.set_sq_flag(SQ_CQ_OVERFLOW, true);
            ev!("k overflow ud={:#x} res={}", canon_ud(cqe.user_data), cqe.res);
            return;
        }
        unsafe {
            ring.cqe_slot(ring.cq_tail).write(cqe);
            ring.cq_tail = ring.cq_tail.wrapping_add(1);
            store32(ring.cq_mem.base.add(ring.cq_off.tail as usize), ring.cq_tail);
        }
        if ring.cq_tail == 0 {
            stats::inc(C::probe_cq_counter_wrapped);
        }
    }

    fn flush_overflow(&mut self, r: usize) {
        self.observe(r);
        loop {
            let ring = &mut self.rings[r];
            if ring.cq_mem.dead {
                ring.overflow.clear();
                break;
            }
            let used = ring.cq_tail.wrapping_sub(ring.seen_cq_head);
            if used >= ring.cq_entries {
                break;
            }
            let Some(cqe) = ring.overflow.pop_front() else {
                break;
            };
            stats::inc(C::probe_cq_overflow_flushed);
            unsafe {
                ring.cqe_slot(ring.cq_tail).write(cqe);
                ring.cq_tail = ring.cq_tail.wrapping_add(1);
                store32(ring.cq_mem.base.add(ring.cq_off.tail as usize), ring.cq_tail);
            }
        }
        let ring = &self.rings[r];
        if ring.overflow.is_empty() {
            ring.set_sq_flag(SQ_CQ_OVERFLOW, false);
        }
    }

    fn run_deferred(&mut self, r: usize) {
        while let Some(cqe) = self.rings[r].deferred.pop_front() {
            self.post_now(r, cqe);
        }
    }

    /// Insert a padding / stray completion.
    pub fn post_noise(&mut self, r: usize) {
        let which = tape::choose(site::FAULT, 3);
        let cqe = match which {
            0 => {
                stats::inc(C::fault_skip_padding);
                // Padding entries carry garbage that must not be interpreted.
                Cqe {
                    user_data: self.guard_page as u64,
                    res: 0,
                    flags: CQE_F_SKIP,
                }
            }
            1 => {
                stats::inc(C::fault_stray_zero);
                Cqe {
                    user_data: 0,
                    res: -libc::EIO,
                    flags: 0,
                }
            }
            _ => {
                stats::inc(C::fault_skip_padding);
                Cqe {
                    user_data: 1,
                    res: -libc::EIO,
                    flags: CQE_F_SKIP,
                }
            }
        };
        crate::report::nontrivial();
        ev!("k noise cqe kind {which}");
        self.post(r, cqe);
    }

    // ---------------------------------------------------------------- enter

    fn enter(
        &mut self,
        fd: c_int,
        to_submit: u32,
        min_complete: u32,
        flags: u32,
        arg: *const c_void,
        argsz: usize,
    ) -> EnterResult {
        let Some(r) = self.ring_by_fd(fd) else {
            return EnterResult::Done(fail(libc::EBADF));
        };
        self.rings[r].enters += 1;
        if flags & ENTER_GETEVENTS != 0 {
            self.rings[r].getevents_enters += 1;
        }
        if !self.rings[r].enabled {
            return EnterResult::Done(fail(libc::EBADFD));
        }
        // IORING_SETUP_SINGLE_ISSUER: only the task the ring belongs to may
        // enter (the scenario names that thread once it runs).
        if self.rings[r].flags & SETUP_SINGLE_ISSUER != 0 {
            if let Some(t) = self.rings[r].submitter {
                if crate::sched::tid() != t {
                    stats::inc(C::fault_single_issuer_refused);
                    ev!("k enter ring#{r} from another thread -> EEXIST (single issuer)");
                    return EnterResult::Done(fail(libc::EEXIST));
                }
            }
        }
        let known = ENTER_GETEVENTS | ENTER_SQ_WAKEUP | ENTER_SQ_WAIT | ENTER_EXT_ARG;
        if flags & !known != 0 {
            return EnterResult::Done(fail(libc::EINVAL));
        }
        let mut timeout_ns: Option<u64> = None;
        if flags & ENTER_EXT_ARG != 0 {
            if argsz != size_of::<GeteventsArg>() {
                return EnterResult::Done(fail(libc::EINVAL));
            }
            let a = unsafe { arg.cast::<GeteventsArg>().read() };
            if a.ts != 0 {
                let ts = unsafe { (a.ts as *const Timespec).read() };
                if ts.tv_sec < 0 || ts.tv_nsec < 0 || ts.tv_nsec >= 1_000_000_000 {
                    return EnterResult::Done(fail(libc::EINVAL));
                }
                timeout_ns = Some(
                    (ts.tv_sec as u64)
                        .saturating_mul(1_000_000_000)
                        .saturating_add(ts.tv_nsec as u64),
                );
            }
        } else if !arg.is_null() {
            return EnterResult::Done(fail(libc::EINVAL));
        }
        self.observe(r);

        let mut submitted = 0;
        if self.rings[r].sqpoll() {
            if flags & ENTER_SQ_WAKEUP != 0 {
                self.rings[r].sq_awake = true;
                self.rings[r].set_sq_flag(SQ_NEED_WAKEUP, false);
            }
            if flags & ENTER_SQ_WAIT != 0 && self.rings[r].sq_awake {
                self.consume(r, u32::MAX);
            }
            if self.rings[r].sq_awake
                && (self.in_ring_drop || min_complete > 0 || !tape::chance(site::KSTEP, 1, 3))
            {
                // The kernel thread picks up what is there sooner or later:
                // mostly by the time this call returns, sometimes only afterwards
                // (always before a call that waits for completions sleeps).
                self.consume(r, u32::MAX);
            }
        } else {
            // EINTR/EBUSY only when nothing would be submitted (as the real
            // kernel); EAGAIN (out of resources) only when something would.
            // Never while the Ring is being dropped: a10 documents that it
            // cannot handle errors there.
            let nothing = self.rings[r].sq_pending().min(to_submit) == 0;
            if self.cfg.enter_faults && !self.in_ring_drop && tape::chance(site::FAULT, 1, 12) {
                // EINTR (signal), EAGAIN (out of resources) or, only while the
                // completion queue is overflown, EBUSY.
                let e = if !nothing {
                    libc::EAGAIN
                } else if tape::choose(site::FAULT, 2) == 0 || self.rings[r].overflow.is_empty() {
                    libc::EINTR
                } else {
                    libc::EBUSY
                };
                stats::inc(match e {
                    libc::EINTR => C::fault_enter_eintr,
                    libc::EAGAIN => C::fault_enter_eagain,
                    _ => C::fault_enter_ebusy,
                });
                crate::report::nontrivial();
                ev!("k enter -> {} (injected)", errno_name(e));
                return EnterResult::Done(fail(e));
            }
            submitted = self.consume(r, to_submit);
        }

        if flags & ENTER_GETEVENTS == 0 {
            ev!("k enter ring#{r} submit={to_submit} -> {submitted}");
            return EnterResult::Done(submitted as c_int);
        }

        self.run_deferred(r);
        self.flush_overflow(r);
        let want = min_complete.min(self.rings[r].cq_entries);
        EnterResult::Wait {
            ring: r,
            submitted,
            want,
            timeout_ns,
        }
    }

    /// One attempt to satisfy a wait; returns Some(result) when the wait ends.
    /// `can_block`: other threads may still make progress (multi-threaded
    /// scenarios); otherwise the kernel decides here and now.
    pub fn wait_step(&mut self, w: &Wait, can_block: bool) -> Option<c_int> {
        let r = w.ring;
        self.run_deferred(r);
        self.flush_overflow(r);
        if self.rings[r].cq_ready() >= w.want {
            ev!("k enter ring#{r} wait satisfied -> {}", w.submitted);
            return Some(w.submitted as c_int);
        }
        // Let in-flight work finish while we wait?
        let completable = self.completable(r);
        if !completable.is_empty()
            && (w.timeout_ns.is_none() && !can_block
                || tape::chance(site::KSTEP, self.cfg.p_complete_in_wait, 100))
        {
            self.complete_some(r);
            self.run_deferred(r);
            self.flush_overflow(r);
            if self.rings[r].cq_ready() >= w.want {
                ev!("k enter ring#{r} wait satisfied -> {}", w.submitted);
                return Some(w.submitted as c_int);
            }
            if w.timeout_ns.is_none() && !can_block {
                // Keep completing until the wait is satisfied.
                return None;
            }
        }
        if can_block {
            return None;
        }
        match w.timeout_ns {
            Some(ns) => {
                self.clock_ns = self.clock_ns.saturating_add(ns);
                stats::add(C::total_sim_ns, ns.min(1 << 40));
                if ns > 0 {
                    self.timed_out_waits += 1;
                    stats::inc(C::probe_poll_clock_advanced);
                }
                stats::inc(C::fault_enter_etime);
                ev!("k enter ring#{r} wait timed out after {ns}ns -> {}", w.submitted);
                Some(if w.submitted > 0 {
                    w.submitted as c_int
                } else {
                    fail(libc::ETIME)
                })
            }
            None => {
                // Nothing will ever complete: a real kernel would block forever.
                self.stuck_waits += 1;
                ev!("k enter ring#{r} would block forever");
                Some(if w.submitted > 0 {
                    w.submitted as c_int
                } else {
                    fail(libc::EINTR)
                })
            }
        }
    }

    /// Time out a blocked wait (multi-threaded scheduler).
    pub fn wait_timeout(&mut self, w: &Wait, deadline: u64) -> c_int {
        if deadline > self.clock_ns {
            stats::add(C::total_sim_ns, (deadline - self.clock_ns).min(1 << 40));
            self.clock_ns = deadline;
        }
        self.timed_out_waits += 1;
        stats::inc(C::probe_poll_clock_advanced);
        stats::inc(C::fault_enter_etime);
        ev!("k enter ring#{} blocked wait timed out", w.ring);
        if w.submitted > 0 {
            w.submitted as c_int
        } else {
            fail(libc::ETIME)
        }
    }

    // ------------------------------------------------------------- register

    fn register(&mut self, fd: c_int, opcode: u32, arg: *const c_void, nr: u32) -> c_int {
        self.register_calls += 1;
        if opcode == REGISTER_SEND_MSG_RING && fd == -1 {
            if nr != 1 {
                return fail(libc::EINVAL);
            }
            let sqe = unsafe { arg.cast::<Sqe>().read() };
            if sqe.opcode() != OP_MSG_RING {
                return fail(libc::EINVAL);
            }
            let res = self.msg_ring(&sqe);
            stats::inc(C::probe_wake_single_issuer);
            return if res < 0 { fail(-res) } else { 0 };
        }
        let Some(r) = self.ring_by_fd(fd) else {
            return fail(libc::EBADF);
        };
        // IORING_SETUP_SINGLE_ISSUER: io_uring_register is refused for every
        // thread but the ring's own (once the scenario has named it).
        if self.rings[r].flags & SETUP_SINGLE_ISSUER != 0 {
            if let Some(t) = self.rings[r].submitter {
                if crate::sched::tid() != t {
                    stats::inc(C::fault_single_issuer_refused);
                    ev!("k register op {opcode} on ring#{r} from another thread -> EEXIST (single issuer)");
                    if opcode == UNREGISTER_PBUF_RING {
                        // The buffer ring stays registered (until the ring is
                        // closed): say so when its memory is freed regardless.
                        let reg = unsafe { arg.cast::<BufReg>().read() };
                        if let Some(p) = self.rings[r].pbufs.get_mut(&reg.bgid) {
                            p.refused = true;
                            for pin in &p.pins {
                                alloc::unpin(*pin);
                                let _ = alloc::pin(
                                    *pin,
                                    "buffer pool memory still registered with the kernel (IORING_UNREGISTER_PBUF_RING was refused: single-issuer ring, other thread)",
                                );
                            }
                        }
                    }
                    return fail(libc::EEXIST);
                }
            }
        }
        if self.cfg.register_fail == Some(opcode) {
            stats::inc(C::fault_register_fail);
            ev!("k register op {opcode} -> ENOMEM (injected)");
            return fail(libc::ENOMEM);
        }
        match opcode {
            REGISTER_ENABLE_RINGS => {
                if self.rings[r].enabled {
                    return fail(libc::EBADFD);
                }
                self.rings[r].enabled = true;
                0
            }
            REGISTER_FILES2 => {
                if nr as usize != size_of::<RsrcRegister>() {
                    return fail(libc::EINVAL);
                }
                let reg = unsafe { arg.cast::<RsrcRegister>().read() };
                if reg.flags != RSRC_REGISTER_SPARSE || reg.data != 0 || reg.tags != 0 || reg.resv2 != 0 {
                    return fail(libc::EINVAL);
                }
                if self.rings[r].files.is_some() {
                    return fail(libc::EBUSY);
                }
                if reg.nr == 0 || reg.nr > 1 << 20 {
                    return fail(libc::EINVAL);
                }
                self.rings[r].files = Some(vec![None; reg.nr as usize]);
                ev!("k register files sparse nr={}", reg.nr);
                0
            }
            REGISTER_FILES_UPDATE => {
                if nr != 1 {
                    return fail(libc::EINVAL);
                }
                let up = unsafe { arg.cast::<FilesUpdate>().read() };
                let v = unsafe { (up.fds as *const i32).read() };
                if v != -1 {
                    harness_error(format!("FILES_UPDATE with fd {v} not modelled"));
                    return fail(libc::EINVAL);
                }
                stats::inc(C::probe_sync_close_fallback);
                if tape::chance(site::FAULT, self.cfg.p_sync_direct_close_refused, 100) {
                    stats::inc(C::fault_register_fail);
                    ev!("k REGISTER_FILES_UPDATE slot {} -> ENOMEM (refused, the slot stays in use)", up.offset);
                    // Nobody can close it any more: exempt from the ledger.
                    if let Some(Some(_)) = self.rings[r].files.as_ref().and_then(|t| t.get(up.offset as usize)) {
                        self.rings[r].refused_slots.push(up.offset);
                    }
                    return fail(libc::ENOMEM);
                }
                let res = self.close_direct(r, up.offset, "REGISTER_FILES_UPDATE");
                if res < 0 { fail(-res) } else { 1 }
            }
            REGISTER_PBUF_RING => {
                if nr != 1 {
                    return fail(libc::EINVAL);
                }
                let reg = unsafe { arg.cast::<BufReg>().read() };
                if reg.resv != [0; 3] || reg.flags != 0 {
                    return fail(libc::EINVAL);
                }
                if reg.ring_entries == 0
                    || !reg.ring_entries.is_power_of_two()
                    || reg.ring_entries > 32768
                    || reg.ring_addr as usize % PAGE != 0
                {
                    return fail(libc::EINVAL);
                }
                if self.rings[r].pbufs.contains_key(&reg.bgid) {
                    return fail(libc::EEXIST);
                }
                let mut pins = Vec::new();
                match alloc::find(reg.ring_addr as usize) {
                    Some((base, b)) if b.state == alloc::BlockState::Live => {
                        alloc::pin(base, "provided-buffer ring registered with the kernel");
                        pins.push(base);
                    }
                    Some(_) => violation(
                        "mem.freed-while-kernel-owns",
                        "buffer ring registered from freed memory".to_string(),
                    ),
                    None => {}
                }
                self.rings[r].pbufs.insert(
                    reg.bgid,
                    Pbuf {
                        ring_addr: reg.ring_addr as usize,
                        entries: reg.ring_entries as u16,
                        head: 0,
                        seen_tail: 0,
                        base: None,
                        buf_size: 0,
                        handed_out: Vec::new(),
                        pins,
                        total_released: 0,
                        last_entry: None,
                        refused: false,
                    },
                );
                ev!("k register pbuf ring entries={}", reg.ring_entries);
                0
            }
            UNREGISTER_PBUF_RING => {
                let reg = unsafe { arg.cast::<BufReg>().read() };
                // C01: a request in flight that selects its buffers from this
                // group has been handed the pool's memory; the pool goes away
                // under it.
                let users: Vec<u32> = self.rings[r]
                    .inflight_kids()
                    .into_iter()
                    .filter(|k| {
                        let rec = &self.records[*k as usize];
                        rec.sqe.flags() & SQE_BUFFER_SELECT != 0 && rec.sqe.buf_group() == reg.bgid
                    })
                    .collect();
                if let Some(k) = users.first() {
                    if self.rings[r].pbufs.contains_key(&reg.bgid) && !self.in_ring_drop {
                        violation(
                            "mem.freed-while-kernel-owns",
                            format!(
                                "buffer pool (group {}) unregistered and about to be freed while {} (k{k}) is in flight and selects its buffers from it",
                                reg.bgid,
                                op_name(self.records[*k as usize].opcode)
                            ),
                        );
                    }
                }
                match self.rings[r].pbufs.remove(&reg.bgid) {
                    Some(p) => {
                        for pin in p.pins {
                            alloc::unpin(pin);
                        }
                        ev!("k unregister pbuf ring");
                        0
                    }
                    None => fail(libc::ENOENT),
                }
            }
            REGISTER_SYNC_CANCEL => {
                let reg = unsafe { arg.cast::<SyncCancelReg>().read() };
                if reg.flags != (ASYNC_CANCEL_ANY | ASYNC_CANCEL_ALL) {
                    harness_error(format!("SYNC_CANCEL flags {:#x} not modelled", reg.flags));
                    return fail(libc::EINVAL);
                }
                self.rings[r].sync_cancels += 1;
                let kids: Vec<u32> = self.rings[r].inflight.iter().map(|i| i.kid).collect();
                let n = kids.len();
                if n > 0 {
                    stats::inc(C::probe_ring_dropped_with_inflight);
                }
                let mut n = n;
                for kid in kids {
                    if self.rings[r].inflight_notif_pending(kid)
                        && tape::chance(site::CANCEL, self.cfg.p_notif_survives, 100)
                    {
                        // The request itself is complete, only its pages are still
                        // referenced: nothing to cancel, the notification comes
                        // whenever the network stack lets go (or never).
                        stats::inc(C::fault_notif_survives_cancel);
                        crate::report::nontrivial();
                        n -= 1;
                        let pins = self.rings[r].inflight_pins(kid);
                        self.survivor_blocks.extend(pins);
                        self.survivor_ops += 1;
                        ev!("k sync cancel: notification of k{kid} stays outstanding");
                        continue;
                    }
                    let finish = tape::chance(site::CANCEL, self.cfg.p_sync_cancel_finish, 100);
                    if finish {
                        self.complete_kid(r, kid, true);
                        // Including the second step of a zero-copy send.
                        if self.rings[r].inflight_notif_pending(kid) {
                            self.finish_with(r, kid, 0);
                        }
                    } else {
                        stats::inc(C::probe_sync_cancel_cancelled);
                        self.finish_with(r, kid, -libc::ECANCELED);
                    }
                }
                ev!("k sync cancel -> {n}");
                // Probed on Linux 6.18: 0 when nothing was in flight, the
                // number of cancelled requests otherwise.
                n as c_int
            }
            _ => {
                harness_error(format!("io_uring_register opcode {opcode} not modelled"));
                fail(libc::EINVAL)
            }
        }
    }

    pub(crate) fn msg_ring(&mut self, sqe: &Sqe) -> i32 {
        if sqe.addr() != 0 {
            harness_error("MSG_RING with non-DATA command".to_string());
            return -libc::EINVAL;
        }
        let Some(target) = self.ring_by_fd(sqe.fd()) else {
            return -libc::EBADFD;
        };
        self.rings[target].msgs += 1;
        let cqe = Cqe {
            user_data: sqe.off(),
            res: sqe.len() as i32,
            flags: 0,
        };
        ev!("k msg_ring -> ring#{target} ud={}", sqe.off());
        // A message is posted directly, it is not task work of the target.
        self.rings[target].posted += 1;
        stats::inc(C::total_cqes);
        self.post_now(target, cqe);
        0
    }

    fn close_hook(&mut self, fd: c_int) -> Option<c_int> {
        if fd >= FD_BASE || (0..=2).contains(&fd) {
            stats::inc(C::probe_sync_close_fallback);
            let res = self.close_regular(fd, "close(2)");
            if res == 0 && fd > 2 && tape::chance(site::FAULT, self.cfg.p_close_err, 100) {
                // Linux releases the descriptor before it reports EINTR (or a
                // write-back error): the number may be in use again already.
                stats::inc(C::fault_close_error);
                let e = if tape::chance(site::FAULT, 1, 2) { libc::EINTR } else { libc::EIO };
                ev!("k close(2) -> {} (descriptor released)", errno_name(e));
                return Some(fail(e));
            }
            return Some(if res < 0 { fail(-res) } else { 0 });
        }
        // The ring's own descriptor (eventfd) and real descriptors (inotify,
        // signalfd) are closed for real; the ledger of real descriptors a10
        // owns learns about it.
        if let Some(pos) = self.foreign_fds.iter().position(|f| *f == fd) {
            self.foreign_fds.swap_remove(pos);
            stats::inc(C::probe_sync_close_fallback);
            ev!("k close real descriptor via close(2)");
            return None;
        }
        // Anything else is a number a10 does not own (an index of a direct
        // descriptor used as a descriptor, ...): report it, and do not let
        // it close a descriptor of this process.
        violation(
            "fd.wrong-kind",
            format!("close(2) of descriptor {fd}, which no AsyncFd owns as a regular descriptor"),
        );
        Some(fail(libc::EBADF))
    }

    /// Update `fd_closed` of rings by asking the real descriptor table.
    pub fn refresh_ring_fds(&mut self) {
        for i in 0..self.rings.len() {
            if self.rings[i].fd_closed {
                continue;
            }
            let fd = self.rings[i].fd;
            // A newer ring may have reused the number.
            let newer = self.rings[i + 1..].iter().any(|r| r.fd == fd);
            if newer || unsafe { libc::fcntl(fd, libc::F_GETFD) } == -1 {
                self.rings[i].fd_closed = true;
                // The ring is gone: whatever it still referenced is let go.
                for inf in std::mem::take(&mut self.rings[i].inflight) {
                    for p in inf.pins {
                        alloc::unpin(p);
                    }
                }
            }
        }
    }
}

pub enum EnterResult {
    Done(c_int),
    Wait {
        ring: usize,
        submitted: u32,
        want: u32,
        timeout_ns: Option<u64>,
    },
}

#[derive(Clone, Debug, PartialEq)]
pub struct Wait {
    pub ring: usize,
    pub submitted: u32,
    pub want: u32,
    pub timeout_ns: Option<u64>,
}

/// Canonical form of a user_data for logs: reserved values as they are,
/// pointers as a tag only (addresses vary with ASLR).
pub fn canon_ud(ud: u64) -> u64 {
    if ud <= 3 { ud } else { 0xffff_0000 | (ud & 1) }
}

// --------------------------------------------------------------------- hooks

unsafe fn h_setup(entries: u32, params: *mut c_void) -> c_int {
    with(|k| k.setup(entries, params.cast()))
}

unsafe fn h_enter(
    fd: c_int,
    to_submit: u32,
    min_complete: u32,
    flags: u32,
    arg: *const c_void,
    argsz: usize,
) -> c_int {
    stats::inc(C::total_yields);
    let res = with(|k| k.enter(fd, to_submit, min_complete, flags, arg, argsz));
    match res {
        EnterResult::Done(r) => r,
        EnterResult::Wait {
            ring,
            submitted,
            want,
            timeout_ns,
        } => {
            let w = Wait {
                ring,
                submitted,
                want,
                timeout_ns,
            };
            alloc::harness(|| crate::sched::wait(&w))
        }
    }
}

unsafe fn h_register(fd: c_int, opcode: u32, arg: *const c_void, nr: u32) -> c_int {
    with(|k| k.register(fd, opcode, arg, nr))
}

unsafe fn h_mmap(len: usize, prot: c_int, flags: c_int, fd: c_int, off: i64) -> Option<*mut c_void> {
    with(|k| k.mmap(len, prot, flags, fd, off))
}

unsafe fn h_madvise(addr: *mut c_void, len: usize, advice: c_int) -> Option<c_int> {
    with(|k| k.madvise(addr, len, advice))
}

unsafe fn h_munmap(addr: *mut c_void, len: usize) -> Option<c_int> {
    with(|k| k.munmap(addr, len))
}

unsafe fn h_close(fd: c_int) -> Option<c_int> {
    with(|k| k.close_hook(fd))
}

fn h_yield(site: a10::verif::Site, addr: usize) {
    use a10::verif::Site;
    if !crate::sched::active() {
        return;
    }
    stats::inc(C::total_yields);
    if matches!(site, Site::LockBlocked) && !crate::sched::owns_scheduling() {
        // Single-threaded run and a lock cannot be taken: nobody will ever
        // release it. Report and abandon the run.
        alloc::harness(|| {
            let mut any = false;
            for v in alloc::take_violations() {
                violation(v.class, v.detail);
                any = true;
            }
            let freed = alloc::find(addr).is_some_and(|(_, b)| b.state != alloc::BlockState::Live);
            if !any {
                violation(
                    if freed { "mem.use-after-free" } else { "wake.deadlock" },
                    if freed {
                        "a10 takes a lock that lies in memory it has already freed".to_string()
                    } else {
                        "a10 blocks forever on one of its own locks (single thread)".to_string()
                    },
                );
            }
        });
        std::panic::panic_any(crate::run::AbortRun);
    }
    alloc::harness(|| {
        match site {
            Site::SqTailStored => with(|k| k.on_sq_published(addr)),
            Site::CqHeadStored | Site::BufRingTailStored => with(|k| {
                for r in 0..k.rings.len() {
                    k.observe(r);
                    k.observe_pbufs(r);
                }
            }),
            _ => {}
        }
        // The kernel is asynchronous: it may act between any two steps of a10.
        if !matches!(site, Site::LockBlocked) {
            with(|k| k.act_at_yield());
        }
        crate::sched::yield_now(site, addr);
    });
}

fn h_owns() -> bool {
    crate::sched::intercepts_locks()
}

static HOOKS: a10::verif::Hooks = a10::verif::Hooks {
    io_uring_setup: h_setup,
    io_uring_enter2: h_enter,
    io_uring_register: h_register,
    mmap: h_mmap,
    madvise: h_madvise,
    munmap: h_munmap,
    close: h_close,
    yield_point: h_yield,
    owns_scheduling: h_owns,
};

pub fn install() {
    a10::verif::install(&HOOKS);
}

/// The hook table (used by the conformance suite to drive the stub directly).
pub fn hooks() -> &'static a10::verif::Hooks {
    &HOOKS
}
