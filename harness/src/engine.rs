//! The single-threaded simulation engine behind the `life`, `cq`, `blocked`,
//! `fd`, `pool` and `teardown` scenario families: a random program over a
//! table of live objects, the strict executor, and the per-step oracles.

use std::task::{Context, Poll};
use std::time::Duration;

use crate::abi::*;
use crate::exec::*;
use crate::kernel::{self, During, KCfg, NO_OP, OpRecord};
use crate::ops::{self, Expect, Kind, World};
use crate::report::{self, tag, trace, violation};
use crate::stats::{self, C};
use crate::tape::{self, site};
use crate::{alloc, ev};

pub struct Task {
    pub id: u32,
    pub kind: Kind,
    pub name: &'static str,
    pub task: Option<Box<dyn DynTask>>,
    pub expect: Expect,
    pub fd: Option<usize>,
    pub wakers: TaskWakers,
    pub polled: bool,
    pub last_pending: bool,
    pub last_item: bool,
    pub finished: bool,
    pub dropped: bool,
    pub outputs: Vec<Out>,
    /// Number of yielded items matched against the kernel's script.
    pub matched: usize,
    /// Waiting for submission queue space (poll returned Pending without an
    /// SQE having been published).
    pub blocked_on_sq: bool,
    /// Signal notifier (index) this task borrows.
    pub sig: Option<usize>,
    /// Futures joined into one task share one waker: polled together.
    pub group: Option<u32>,
}

/// A `ReadBuf` held by the application, with its reference model.
pub struct HeldBuf {
    pub buf: a10::io::ReadBuf,
    /// Byte vector with the capacity fixed at the pool's buffer size.
    pub model: Vec<u8>,
    /// Address of the buffer's first byte when it was handed out: the base of
    /// its slot (0 if it owns no buffer).
    pub base: usize,
}

/// What a scenario family looks like.
#[derive(Clone)]
pub struct Profile {
    pub name: &'static str,
    pub kinds: &'static [Kind],
    pub sq_sizes: &'static [u32],
    pub cq_mults: &'static [u32],
    pub wrap_counters: bool,
    pub max_steps: u32,
    pub max_tasks: usize,
    /// Weights: create, poll, drop, ring poll, kernel complete, drop fd,
    /// close fd, release buffer, noise.
    pub w_create: u32,
    pub w_poll: u32,
    pub w_drop: u32,
    pub w_ringpoll: u32,
    pub w_kcomplete: u32,
    pub w_dropfd: u32,
    pub w_closefd: u32,
    pub w_relbuf: u32,
    pub w_stdio: u32,
    pub w_edit: u32,
    pub w_bufio: u32,
    /// Adjust the drawn kernel configuration.
    pub tweak: fn(&mut KCfg),
    /// Drop the ring at a drawn position instead of polling to quiescence.
    pub p_ring_drop_early: u32,
    pub faults: bool,
    pub pools: bool,
    pub direct: bool,
    pub sqpoll: bool,
    pub never_complete: bool,
    pub force_pool: bool,
    /// Create signal notifiers and a second ring (for the kinds needing them).
    pub extras: bool,
}

pub const BASE: Profile = Profile {
    name: "life",
    kinds: ops::ALL_KINDS,
    sq_sizes: &[8, 4, 2, 1, 16],
    cq_mults: &[2, 1, 4],
    wrap_counters: true,
    max_steps: 40,
    max_tasks: 8,
    w_create: 6,
    w_poll: 8,
    w_drop: 3,
    w_ringpoll: 5,
    w_kcomplete: 5,
    w_dropfd: 1,
    w_closefd: 1,
    w_relbuf: 1,
    w_stdio: 0,
    w_edit: 0,
    w_bufio: 0,
    tweak: |_| {},
    p_ring_drop_early: 10,
    faults: true,
    pools: true,
    direct: true,
    sqpoll: true,
    never_complete: false,
    force_pool: false,
    extras: true,
};

pub struct Engine {
    pub prof: Profile,
    /// Never dropped implicitly: `end` tears the world down in a controlled
    /// order; on a panic everything is leaked instead of dropped mid-unwind.
    pub w: std::mem::ManuallyDrop<World>,
    pub tasks: std::mem::ManuallyDrop<Vec<Task>>,
    pub bufs: std::mem::ManuallyDrop<Vec<HeldBuf>>,
    pub ring_id: usize,
    pub ring_alive: bool,
    /// The harness gave up its own queue handle (teardown group Q).
    pub sq_dropped: bool,
    /// io_uring_enter(GETEVENTS) calls seen so far (C05 rule in `ring_poll`).
    pub getevents_seen: u64,
    /// Quiescence was cut short: a blocking poll would never have returned.
    pub stuck: bool,
    /// The ring was built disabled and has not been enabled yet.
    pub disabled: bool,
    /// Inside the joint poll of a task made of several futures.
    pub in_group_poll: bool,
    pub sq_entries: u32,
    pub faults_on: bool,
    pub closes: Vec<Task>,
    pub step_no: u32,
}

fn is_interrupt(res: i32) -> bool {
    res == -libc::EINTR || res == -libc::ECANCELED
}

pub fn draw_kcfg(faults: bool) -> KCfg {
    let mut c = KCfg::default();
    if !faults {
        return c;
    }
    // Swarm: every run enables a random subset of fault kinds.
    let sw = |p: u32| tape::chance(site::CFG, p, 100);
    if sw(50) {
        c.p_short = tape::pick(site::CFG, &[20, 5, 50]);
    }
    if sw(25) {
        c.p_zero = tape::pick(site::CFG, &[5, 20]);
    }
    if sw(40) {
        c.p_errno = tape::pick(site::CFG, &[10, 30]);
    }
    if sw(40) {
        c.p_intr = tape::pick(site::CFG, &[15, 40]);
    }
    if sw(50) {
        c.p_yield_act = tape::pick(site::CFG, &[50, 200, 10]);
    }
    if sw(50) {
        c.cancel_w = tape::pick(site::CFG, &[[1, 1], [1, 3], [3, 1]]);
    }
    c.noise = sw(30);
    c.enter_faults = sw(20);
    c.sqpoll_sleepy = sw(50);
    c.p_complete_in_wait = if sw(50) { 50 } else { 0 };
    c.p_zc_notif_same_batch = tape::pick(site::CFG, &[50, 0, 100]);
    c.p_close_err = if sw(15) { 30 } else { 0 };
    c.p_notif_survives = if sw(30) { 60 } else { 0 };
    c.p_sync_direct_close_refused = if sw(15) { 40 } else { 0 };
    c.p_prep_fail = if sw(20) { tape::pick(site::CFG, &[15u32, 40]) } else { 0 };
    c.p_pipe_einval = if sw(25) { 40 } else { 0 };
    c.p_sync_cancel_finish = if sw(30) { 50 } else { 0 };
    c
}

fn draw_counter(entries: u32) -> u32 {
    let k = tape::choose(site::COUNTER, 2 * entries + 1);
    match tape::choose(site::COUNTER, 5) {
        0 => 0,
        1 => k,
        2 => (1u32 << 31).wrapping_sub(k),
        3 => 0u32.wrapping_sub(k),
        _ => 0u32.wrapping_sub(1 + tape::choose(site::COUNTER, 3)),
    }
}

impl Engine {
    /// Build the ring and the initial objects.
    pub fn new(prof: Profile) -> Option<Engine> {
        let mut kcfg = draw_kcfg(prof.faults);
        (prof.tweak)(&mut kcfg);
        let sq = tape::pick(site::GEOM, prof.sq_sizes);
        let cq = sq * tape::pick(site::GEOM, prof.cq_mults);
        if prof.wrap_counters {
            kcfg.sq_start = draw_counter(sq);
            kcfg.cq_start = draw_counter(cq);
        }
        kcfg.random_layout = tape::chance(site::GEOM, 1, 3);
        let direct = prof.direct && tape::chance(site::GEOM, 1, 2);
        let sqpoll = prof.sqpoll && tape::chance(site::GEOM, 1, 6);
        // Single-issuer rings (wake-ups through a registered message, task
        // work only run by io_uring_enter(GETEVENTS) with defer_task_run).
        let single = prof.sqpoll && !sqpoll && tape::chance(site::GEOM, 1, 6);
        let defer = single && tape::chance(site::GEOM, 1, 2);
        // A ring that starts disabled (IORING_SETUP_R_DISABLED): operations can
        // be queued, io_uring_enter is refused (EBADFD) until Ring::enable.
        let disabled = prof.sqpoll && tape::chance(site::GEOM, 1, 12);
        kernel::with(|k| k.cfg = kcfg);
        trace(&[tag::CFG, sq, cq, u32::from(direct), u32::from(sqpoll) + 2 * u32::from(single) + 4 * u32::from(defer)]);
        ev!("h config sq={sq} cq={cq} direct={direct} sqpoll={sqpoll} single_issuer={single} defer={defer}");

        let ring = alloc::a10(|| {
            let mut c = a10::Ring::config()
                .with_submission_queue_size(sq)
                .with_completion_queue_size(cq);
            if direct {
                c = c.with_direct_descriptors(8);
            }
            if sqpoll {
                c = c.with_kernel_thread();
            }
            if single {
                c = c.single_issuer();
            }
            if defer {
                c = c.defer_task_run();
            }
            if disabled {
                c = c.disable();
            }
            c.build()
        });
        let ring = match ring {
            Ok(r) => r,
            Err(e) => {
                report::harness_error(format!("ring build failed: {e}"));
                return None;
            }
        };
        let mut e = Engine::from_ring(ring, prof, sq, direct);
        e.disabled = disabled;
        if disabled {
            ev!("h the ring starts disabled");
        }
        Some(e)
    }

    /// Build the engine around an existing ring.
    pub fn from_ring(ring: a10::Ring, prof: Profile, sq: u32, direct: bool) -> Engine {
        let sqh = alloc::a10(|| ring.sq());
        let mut w = World {
            ring: Some(ring),
            sq: sqh,
            fds: Vec::new(),
            pools: Vec::new(),
            direct_enabled: direct,
            other: None,
            signals: Vec::new(),
        };
        for _ in 0..(1 + tape::choose(site::GEOM, 3)) {
            w.new_fd();
        }
        if prof.pools && (prof.force_pool || tape::chance(site::GEOM, 2, 3)) {
            let size = tape::pick(site::GEOM, &[2u16, 1, 4, 8]);
            let buf = tape::pick(site::GEOM, &[16u32, 8, 64, 24, 48, 5, 100]);
            match alloc::a10(|| a10::io::ReadBufPool::new(w.sq.clone(), size, buf)) {
                Ok(p) => w.pools.push(p),
                Err(e) => report::harness_error(format!("pool: {e}")),
            }
        }
        let ring_id = kernel::with(|k| k.rings.len() - 1);
        ops::tracked_reset();
        if prof.extras && prof.kinds.iter().any(|k| k.needs_signals()) && tape::chance(site::GEOM, 1, 3) {
            // A real signalfd for a harmless signal; its reads go to the stub.
            for _ in 0..(1 + tape::choose(site::GEOM, 2)) {
                match alloc::a10(|| a10::process::Signals::from_signals(w.sq.clone(), [a10::process::Signal::USER2])) {
                    Ok(sig) => {
                        let dbg = format!("{sig:?}");
                        let n: i32 = dbg
                            .split("fd: ")
                            .nth(2)
                            .and_then(|r| r.split(',').next())
                            .and_then(|n| n.trim().parse().ok())
                            .unwrap_or(-1);
                        kernel::with(|k| {
                            k.foreign_fds.push(n);
                            k.full_only.push(n);
                        });
                        w.signals.push(Some(Box::new(sig)));
                    }
                    Err(e) => report::harness_error(format!("signalfd: {e}")),
                }
            }
        }
        if prof.extras && prof.kinds.iter().any(|k| k.needs_other_ring()) && tape::chance(site::GEOM, 1, 4) {
            let keep = kernel::with(|k| k.cfg.clone());
            kernel::with(|k| {
                k.cfg.sq_start = 0;
                k.cfg.cq_start = 0;
            });
            match alloc::a10(|| a10::Ring::config().with_submission_queue_size(2).build()) {
                Ok(r) => w.other = Some(r),
                Err(e) => report::harness_error(format!("second ring: {e}")),
            }
            kernel::with(|k| k.cfg = keep);
        }
        Engine {
            prof,
            w: std::mem::ManuallyDrop::new(w),
            tasks: std::mem::ManuallyDrop::new(Vec::new()),
            bufs: std::mem::ManuallyDrop::new(Vec::new()),
            ring_id,
            ring_alive: true,
            sq_dropped: false,
            getevents_seen: 0,
            stuck: false,
            disabled: false,
            in_group_poll: false,
            sq_entries: sq,
            faults_on: true,
            closes: Vec::new(),
            step_no: 0,
        }
    }

    fn live_tasks(&self) -> Vec<usize> {
        (0..self.tasks.len())
            .filter(|i| !self.tasks[*i].dropped)
            .collect()
    }

    /// Records of the submissions task `id` made while being polled, in order.
    fn recs(id: u32) -> Vec<OpRecord> {
        kernel::with(|k| {
            k.records
                .iter()
                .filter(|r| r.by_op == id && r.during == During::Poll && r.user_data > 3)
                .cloned()
                .collect()
        })
    }

    /// Has task `id` published a submission the kernel has not consumed yet?
    fn unconsumed(&self, id: u32) -> bool {
        kernel::with(|k| {
            k.rings[self.ring_id]
                .published
                .iter()
                .any(|p| p.by_op == id && p.during == During::Poll)
        })
    }

    /// Latest user_data task `id` submitted (consumed or not).
    fn latest_user_data(&self, id: u32) -> Option<u64> {
        kernel::with(|k| {
            let ring = &k.rings[self.ring_id];
            ring.published
                .iter()
                .rev()
                .find(|p| p.by_op == id && p.during == During::Poll)
                .map(|p| p.sqe.user_data())
                .or_else(|| {
                    k.records
                        .iter()
                        .rev()
                        .find(|r| r.by_op == id && r.during == During::Poll)
                        .map(|r| r.user_data)
                })
        })
    }

    pub fn create(&mut self) {
        if self.live_tasks().len() >= self.prof.max_tasks {
            return;
        }
        let kinds: Vec<Kind> = self
            .prof
            .kinds
            .iter()
            .copied()
            .filter(|k| {
                (!k.needs_signals() || self.w.signals.iter().any(Option::is_some))
                    && (!k.needs_other_ring() || self.w.other.is_some())
                    && (!k.needs_pool() || !self.w.pools.is_empty())
                    && (!k.needs_direct_table() || self.w.direct_enabled)
                    && (!k.needs_fd() || !self.w.live_fds().is_empty())
            })
            .collect();
        if kinds.is_empty() {
            return;
        }
        let kind = kinds[tape::choose(site::OPKIND, kinds.len() as u32) as usize];
        let fd = if kind.needs_fd() {
            let live = self.w.live_fds();
            let want_direct = kind == Kind::ToFile;
            let cands: Vec<usize> = live
                .iter()
                .copied()
                .filter(|i| {
                    let d = self.w.fds[*i].as_ref().unwrap().kind() == a10::fd::Kind::Direct;
                    if want_direct { d } else if kind == Kind::ToDirect { !d } else { true }
                })
                .collect();
            if cands.is_empty() {
                return;
            }
            Some(cands[tape::choose(site::TARGET, cands.len() as u32) as usize])
        } else {
            None
        };
        let pool = if kind.needs_pool() {
            Some(0)
        } else if kind.needs_signals() {
            // Index of a live signal notifier; not one a live task borrows when
            // the operation consumes it.
            let consuming = kind != Kind::ReceiveSignal;
            let cands: Vec<usize> = (0..self.w.signals.len())
                .filter(|i| self.w.signals[*i].is_some())
                .filter(|i| !consuming || !self.tasks.iter().any(|t| !t.dropped && t.sig == Some(*i)))
                .filter(|i| {
                    // Converting a direct descriptor again is a documented misuse.
                    kind != Kind::SignalsToDirect
                        || !format!("{:?}", self.w.signals[*i]).contains("Direct")
                })
                .collect();
            if cands.is_empty() {
                return;
            }
            Some(cands[tape::choose(site::TARGET, cands.len() as u32) as usize])
        } else {
            None
        };
        let id = self.tasks.len() as u32;
        let old = kernel::set_cur(id, During::Other);
        let made = ops::make(&mut self.w, kind, fd, pool, (id as u8).wrapping_mul(17).wrapping_add(1));
        kernel::set_cur(old.0, old.1);
        stats::inc(C::total_ops_created);
        trace(&[tag::CREATE, kind as u32]);
        ev!("h create op#{id} {}{}", made.name, fd.map_or(String::new(), |f| format!(" on fd-slot {f}")));
        // Now and then the new future is joined with the previous one (a
        // `join!`/`select!` style task): both are polled with the very same
        // waker, and always together.
        let mut group = None;
        let mut wakers = TaskWakers::new(id);
        if tape::chance(site::WAKER, 1, 6) {
            if let Some(prev) = self.tasks.iter_mut().rev().find(|t| !t.dropped && !t.finished && !t.polled && t.wakers.twin.is_none()) {
                let g = prev.group.unwrap_or(prev.id);
                prev.group = Some(g);
                group = Some(g);
                wakers.current = prev.wakers.current.clone();
                stats::inc(C::probe_waker_shared);
            }
        }
        self.tasks.push(Task {
            id,
            kind,
            name: made.name,
            task: Some(made.task),
            expect: made.expect,
            fd,
            wakers,
            polled: false,
            last_pending: false,
            last_item: false,
            finished: false,
            dropped: false,
            outputs: Vec::new(),
            matched: 0,
            blocked_on_sq: false,
            sig: if kind == Kind::ReceiveSignal { pool } else { None },
            group,
        });
    }

    /// May the strict executor poll task `i` now?
    pub fn runnable(&self, i: usize) -> bool {
        let t = &self.tasks[i];
        !t.dropped && !t.finished && (!t.polled || t.last_item || t.wakers.fired())
    }

    pub fn poll_task(&mut self, i: usize) {
        if let (Some(g), false) = (self.tasks[i].group, self.in_group_poll) {
            // All futures of the task, with the one waker cleared once.
            let members: Vec<usize> = (0..self.tasks.len())
                .filter(|m| self.tasks[*m].group == Some(g) && !self.tasks[*m].dropped && !self.tasks[*m].finished)
                .collect();
            self.tasks[i].wakers.clear();
            self.in_group_poll = true;
            for m in members {
                self.poll_task(m);
            }
            self.in_group_poll = false;
            return;
        }
        let id = self.tasks[i].id;
        if self.tasks[i].dropped || self.tasks[i].finished {
            return;
        }
        if self.tasks[i].polled && self.tasks[i].group.is_none() && tape::chance(site::WAKER, 1, 4) {
            // The future moved to another task: new waker, old one is stale.
            let fired = self.tasks[i].wakers.fired();
            if tape::chance(site::WAKER, 1, 3) {
                // Same data pointer, other vtable.
                self.tasks[i].wakers.replace_by_twin();
            } else {
                self.tasks[i].wakers.replace();
            }
            if fired {
                self.tasks[i].wakers.current.fired.store(1, std::sync::atomic::Ordering::Release);
            }
        }
        if !self.in_group_poll {
            self.tasks[i].wakers.clear();
        }
        let waker = self.tasks[i].wakers.waker();
        let mut cx = Context::from_waker(&waker);
        let mut produced = Vec::new();
        let (published_before, full_before) = kernel::with(|k| {
            let r = &k.rings[self.ring_id];
            (r.seen_sq_tail, r.sq_pending() >= r.sq_entries)
        });
        let must_resolve = self.cq_drained() && self.must_resolve(i) == Some(true);
        // C09: a10 has been given the final completion of the last attempt, it
        // says "interrupted", nothing of this operation is queued and the
        // submission queue has room: this poll has to issue it again.
        let restart_due = self.ring_alive
            && !full_before
            && !self.tasks[i].kind.is_iter()
            && !ops::is_composite(self.tasks[i].kind)
            && self.tasks[i].kind != Kind::ReceiveSignals
            && self.cq_drained()
            && !self.unconsumed(id)
            && Self::recs(id).last().is_some_and(|last| {
                let res = if last.zc { last.cqes.first() } else { last.cqes.last() }.map_or(0, |c| c.0);
                last.done && is_interrupt(res)
            });
        let old = kernel::set_cur(id, During::Poll);
        let mut task = self.tasks[i].task.take().unwrap();
        let res = task.poll(&mut cx, &mut produced);
        self.tasks[i].task = Some(task);
        kernel::set_cur(old.0, old.1);
        self.tasks[i].polled = true;
        let published_after = kernel::with(|k| k.rings[self.ring_id].seen_sq_tail);
        for p in produced {
            match p {
                Produced::Fd(fd) => {
                    let (n, d) = ops::fd_num(&fd);
                    if !d && n > 2 && n < kernel::FD_BASE {
                        // A real descriptor (pipe2(2) fallback): closed for real.
                        kernel::with(|k| k.foreign_fds.push(n));
                    }
                    kernel::with(|k| k.mark_delivered(self.ring_id, n, d));
                    let slot = self.w.add_fd(fd);
                    ev!("h op#{id} produced descriptor -> fd-slot {slot}");
                }
                Produced::ReadBuf(b) => {
                    let model = b.as_slice().to_vec();
                    let base = b.as_slice().as_ptr() as usize;
                    self.bufs.push(HeldBuf { buf: b, model, base });
                }
                Produced::Signals(s) => self.w.signals.push(Some(Box::new(s))),
            }
        }
        match res {
            Poll::Pending => {
                trace(&[tag::POLL, self.tasks[i].kind as u32, 0]);
                ev!("h poll op#{id} -> Pending");
                if must_resolve {
                    // C05: the completion was published and its slot given back
                    // (the queue is drained), yet the operation does not have it.
                    violation(
                        "cq.lost",
                        format!(
                            "{} (op#{id}) returned Pending although the kernel published its completion and Ring::poll has consumed the whole completion queue: the completion never reached the operation",
                            self.tasks[i].name
                        ),
                    );
                }
                let t = &mut self.tasks[i];
                t.last_pending = true;
                t.last_item = false;
                let submitted = published_after != published_before;
                // Pending although it has no live submission (never started,
                // or its last attempt ended and the restart found no room):
                // it waits for submission queue space.
                let _ = submitted;
                let live = kernel::with(|k| {
                    k.rings[self.ring_id]
                        .published
                        .iter()
                        .any(|p| p.by_op == id && p.during == During::Poll)
                }) || Self::recs(id).last().is_some_and(|r| !r.done);
                t.blocked_on_sq = !live;
                if t.blocked_on_sq && restart_due && !submitted {
                    violation(
                        "restart.not-reissued",
                        format!(
                            "{} (op#{id}): its last attempt ended interrupted, the completion has been processed and the submission queue has room, yet this poll returned Pending without issuing it again",
                            t.name
                        ),
                    );
                }
                if t.blocked_on_sq {
                    stats::inc(C::probe_sq_full_at_poll);
                    stats::inc(C::fault_sq_full);
                    if !full_before && !ops::is_composite(t.kind) {
                        // Harmless, but worth knowing: Pending with room in the queue.
                        ev!("h op#{id} pending without submission although the queue had room");
                    }
                }
            }
            Poll::Ready(Some(out)) => {
                trace(&[tag::POLL, self.tasks[i].kind as u32, 1, u32::from(out.is_err())]);
                ev!("h poll op#{id} -> {out:?}");
                let is_iter = self.tasks[i].kind.is_iter();
                self.tasks[i].last_pending = false;
                self.tasks[i].last_item = is_iter;
                self.tasks[i].blocked_on_sq = false;
                if !is_iter || (self.tasks[i].kind == Kind::ReceiveSignals && out.is_err()) {
                    self.tasks[i].finished = true;
                }
                self.tasks[i].outputs.push(out.clone());
                self.check_output(i, &out);
            }
            Poll::Ready(None) => {
                trace(&[tag::POLL, self.tasks[i].kind as u32, 2]);
                ev!("h poll op#{id} -> end of stream");
                self.tasks[i].finished = true;
                self.tasks[i].last_pending = false;
                self.tasks[i].last_item = false;
                self.check_end(i);
            }
        }
    }

    /// The flattened script for a task: what its outputs must be, in order.
    /// Interrupted attempts (EINTR/ECANCELED final completions) are not
    /// visible to the caller.
    fn script(&self, i: usize) -> (Vec<Out>, bool, bool) {
        let t = &self.tasks[i];
        script_of(&Self::recs(t.id), &t.expect)
    }

    fn check_restarts(&self, i: usize) {
        let t = &self.tasks[i];
        // `ReceiveSignals` is a series of single reads, one per item.
        if ops::is_composite(t.kind) || t.kind == Kind::ReceiveSignals {
            return;
        }
        let recs = Self::recs(t.id);
        for pair in recs.windows(2) {
            let (a, b) = (&pair[0], &pair[1]);
            // The result of a two-step operation is that of its first step.
            let last = if a.zc { a.cqes.first() } else { a.cqes.last() }.map_or(0, |c| c.0);
            if !a.done || !is_interrupt(last) {
                violation(
                    "restart.sqe-differs",
                    format!(
                        "{} (op#{}) was submitted again although its previous attempt ended with {}",
                        t.name,
                        t.id,
                        if last < 0 { errno_name(-last).to_string() } else { last.to_string() }
                    ),
                );
                continue;
            }
            stats::inc(C::probe_restart_taken);
            if t.kind.is_iter() {
                stats::inc(C::probe_restart_multishot);
            }
            if a.sqe != b.sqe && !kernel::with(|k| k.late_builder_ops.contains(&t.id)) {
                let diff: Vec<usize> = (0..64).filter(|x| a.sqe.0[*x] != b.sqe.0[*x]).collect();
                violation(
                    "restart.sqe-differs",
                    format!(
                        "{} (op#{}) re-issued after {} with a different request (bytes {diff:?} differ)",
                        t.name,
                        t.id,
                        errno_name(-last)
                    ),
                );
            }
            let ra: Vec<(usize, usize)> = a.regions.iter().map(|r| (r.addr, r.len)).collect();
            let rb: Vec<(usize, usize)> = b.regions.iter().map(|r| (r.addr, r.len)).collect();
            if ra != rb {
                violation(
                    "restart.sqe-differs",
                    format!("{} (op#{}) re-issued with different memory regions", t.name, t.id),
                );
            }
        }
    }

    fn check_output(&mut self, i: usize, out: &Out) {
        let t = &self.tasks[i];
        if ops::is_composite(t.kind) {
            return;
        }
        if matches!(t.kind, Kind::Pipe | Kind::PipeDirect)
            && Self::recs(t.id).last().is_some_and(|r| r.cqes.last().is_some_and(|c| c.0 == -libc::EINVAL))
        {
            // The kernel does not know IORING_OP_PIPE: a10 falls back to
            // pipe2(2), which only creates regular descriptors.
            match out {
                Ok(Val::Fds(v)) if v.len() == 2 && v.iter().all(|(n, d)| !d && *n > 2) => {}
                other => violation(
                    "fd.wrong-kind",
                    format!("{} (op#{}): pipe2(2) fallback must yield two regular descriptors, got {other:?}", t.name, t.id),
                ),
            }
            self.tasks[i].matched += 1;
            return;
        }
        self.check_restarts(i);
        let (items, complete, last_done) = self.script(i);
        let t = &self.tasks[i];
        let n = t.matched;
        if let Err(e) = out {
            // The interruption itself, as an errno or as the errno-less
            // `ErrorKind::Interrupted`.
            let kind_only = *e == KIND_INTERRUPTED
                && Self::recs(t.id).iter().any(|r| r.done && r.cqes.last().is_some_and(|c| is_interrupt(c.0)));
            if (*e == libc::EINTR || *e == libc::ECANCELED || kind_only) && items.get(n) != Some(out) {
                violation(
                    "restart.leaked-interruption",
                    format!(
                        "{} (op#{}) returned {} to the caller",
                        t.name,
                        t.id,
                        if kind_only { "ErrorKind::Interrupted" } else { errno_name(*e) }
                    ),
                );
                self.tasks[i].matched += 1;
                return;
            }
        }
        match items.get(n) {
            None => violation(
                "res.made-up",
                format!(
                    "{} (op#{}) produced output #{n} {out:?} but the kernel posted only {} results for it",
                    t.name,
                    t.id,
                    items.len()
                ),
            ),
            Some(want) if want != out => violation(
                "res.wrong",
                format!("{} (op#{}) output #{n}: got {out:?}, kernel scripted {want:?}", t.name, t.id),
            ),
            Some(_) => {}
        }
        if !t.kind.is_iter() && (!complete || !last_done) && items.get(n).is_some() {
            violation(
                "res.early",
                format!("{} (op#{}) resolved before its final completion was posted", t.name, t.id),
            );
        }
        self.tasks[i].matched += 1;
    }

    fn check_end(&mut self, i: usize) {
        let (items, complete, _) = self.script(i);
        let t = &self.tasks[i];
        if t.matched < items.len() {
            violation(
                "res.missing",
                format!(
                    "{} (op#{}) ended after {} items but the kernel posted {}",
                    t.name,
                    t.id,
                    t.matched,
                    items.len()
                ),
            );
        } else if !complete {
            violation(
                "res.made-up",
                format!("{} (op#{}) ended although the kernel has not posted a final completion", t.name, t.id),
            );
        }
    }

    pub fn drop_task(&mut self, i: usize) {
        if self.tasks[i].dropped {
            return;
        }
        let id = self.tasks[i].id;
        let recs = Self::recs(id);
        let unconsumed = kernel::with(|k| {
            k.rings[self.ring_id]
                .published
                .iter()
                .filter(|p| p.by_op == id && p.during == During::Poll)
                .count()
        });
        let target = self.latest_user_data(id);
        let (room, sq_dead) = kernel::with(|k| {
            let r = &k.rings[self.ring_id];
            (r.sq_pending() < r.sq_entries, r.sq_mem.dead)
        });
        let t = &self.tasks[i];
        let started = !recs.is_empty() || unconsumed > 0;
        let in_flight = unconsumed > 0 || recs.last().is_some_and(|r| !r.done);
        // Probes for the drop point in the life cycle.
        if !started {
            stats::inc(C::probe_drop_not_started);
        } else if t.finished {
        } else if in_flight {
            stats::inc(C::probe_drop_running);
            let r = recs.last();
            if r.is_some_and(|r| r.zc && !r.cqes.is_empty()) {
                stats::inc(C::probe_drop_after_first_cqe);
            }
            if r.is_some_and(|r| r.multishot && !r.cqes.is_empty()) {
                stats::inc(C::probe_drop_multishot_midstream);
            }
        } else {
            stats::inc(C::probe_drop_done_unpolled);
            if kernel::with(|k| k.rings[self.ring_id].cq_ready() > 0) {
                stats::inc(C::probe_drop_final_posted_unconsumed);
            }
        }
        if !room {
            stats::inc(C::probe_sq_full_at_drop);
            stats::inc(C::fault_sq_full);
        }
        trace(&[tag::DROP, t.kind as u32, u32::from(started), u32::from(in_flight), u32::from(t.finished)]);
        ev!("h drop op#{id} started={started} in_flight={in_flight} finished={}", t.finished);

        let mark = kernel::with(|k| (k.records.len(), k.rings[self.ring_id].seen_sq_tail));
        let old = kernel::set_cur(id, During::Drop);
        let task = self.tasks[i].task.take();
        if tape::chance(site::DROP, 1, 10) {
            // The future is dropped while its owner unwinds from a panic
            // (`std::thread::panicking()` is true inside the drop).
            stats::inc(C::probe_drop_during_unwind);
            let r = std::panic::catch_unwind(std::panic::AssertUnwindSafe(move || {
                let _owned = task;
                std::panic::panic_any(crate::run::AbortRun);
            }));
            let Err(p) = r;
            if p.is::<crate::run::AbortRun>() {
                crate::run::clear_panic();
            } else {
                // A panic from inside a10's drop.
                crate::run::record_panic(p);
            }
        } else {
            drop(task);
        }
        kernel::set_cur(old.0, old.1);
        self.tasks[i].dropped = true;
        kernel::with(|k| k.dropped_ops.push(id));

        // What was submitted by the drop?
        let sqes: Vec<Sqe> = kernel::with(|k| {
            let mut v: Vec<Sqe> = k.records[mark.0..]
                .iter()
                .filter(|r| r.by_op == id && r.during == During::Drop)
                .map(|r| r.sqe)
                .collect();
            v.extend(
                k.rings[self.ring_id]
                    .published
                    .iter()
                    .filter(|p| p.by_op == id && p.during == During::Drop)
                    .map(|p| p.sqe),
            );
            v
        });
        let t = &self.tasks[i];
        let cancels: Vec<&Sqe> = sqes.iter().filter(|s| s.opcode() == OP_ASYNC_CANCEL).collect();
        for s in &sqes {
            // Operations that own descriptors close them when dropped.
            let owns_fd = matches!(t.kind, Kind::ReceiveSignals | Kind::SignalsToDirect);
            if s.opcode() != OP_ASYNC_CANCEL && !(owns_fd && s.opcode() == OP_CLOSE) {
                violation(
                    "cancel.wrong-target",
                    format!("dropping {} (op#{id}) submitted a {}", t.name, op_name(s.opcode())),
                );
            }
        }
        if cancels.len() > 1 {
            violation(
                "cancel.spurious",
                format!("dropping {} (op#{id}) submitted {} cancel requests", t.name, cancels.len()),
            );
        }
        if let Some(c) = cancels.first() {
            if !started || t.finished {
                violation(
                    "cancel.spurious",
                    format!(
                        "dropping {} (op#{id}) which {} submitted a cancel request",
                        t.name,
                        if started { "had already finished" } else { "was never started" }
                    ),
                );
            } else if Some(c.addr()) != target {
                violation(
                    "cancel.wrong-target",
                    format!("dropping {} (op#{id}) asked to cancel a different operation", t.name),
                );
            }
            if c.user_data() != 2 || c.flags() & SQE_CQE_SKIP_SUCCESS == 0 {
                violation(
                    "cancel.wrong-target",
                    format!(
                        "cancel request of op#{id} has user_data {} flags {:#x}",
                        c.user_data(),
                        c.flags()
                    ),
                );
            }
        } else if started && !t.finished && in_flight && room && !sq_dead && self.ring_alive {
            violation(
                "cancel.missing",
                format!(
                    "dropping {} (op#{id}) while it is in flight, with room in the queue, submitted no cancel request",
                    t.name
                ),
            );
        }
    }

    /// `Ring::poll` plus the wake-up oracle.
    pub fn ring_poll(&mut self, timeout: Option<Duration>) {
        if !self.ring_alive {
            return;
        }
        stats::inc(C::total_ring_polls);
        // What the kernel holds back until somebody asks for events: deferred
        // task work (DEFER_TASKRUN) and overflowed completions.
        let held_before = kernel::with(|k| {
            let r = &k.rings[self.ring_id];
            (r.cq_ready() == 0 && !r.cq_mem.dead, r.deferred.len() + r.overflow.len(), r.posted)
        });
        let old = kernel::set_cur(NO_OP, During::Other);
        let ring = self.w.ring.as_mut().unwrap();
        let res = alloc::a10(|| ring.poll(timeout));
        kernel::set_cur(old.0, old.1);
        if res.is_ok() && held_before.0 && held_before.1 > 0 {
            let (held_after, entered) = kernel::with(|k| {
                let r = &k.rings[self.ring_id];
                (r.deferred.len() + r.overflow.len(), r.getevents_enters)
            });
            // With an empty completion queue Ring::poll has to ask the kernel
            // (io_uring_enter with GETEVENTS), whatever its timeout: that is
            // the only way held-back completions ever get published.
            if held_after >= held_before.1 && entered == self.getevents_seen {
                violation(
                    "cq.not-reaped",
                    format!(
                        "Ring::poll({timeout:?}) returned with an empty completion queue without asking the kernel for events although {} completion(s) are held back (deferred task work / overflow)",
                        held_before.1
                    ),
                );
            }
        }
        self.getevents_seen = kernel::with(|k| k.rings[self.ring_id].getevents_enters);
        trace(&[tag::RINGPOLL, u32::from(res.is_err())]);
        ev!("h ring.poll({timeout:?}) -> {res:?}");
        if let Err(e) = &res {
            let code = e.raw_os_error().unwrap_or(0);
            let refused_disabled = self.disabled && code == libc::EBADFD;
            if code != libc::EBUSY && code != libc::EINTR && code != libc::EAGAIN && !refused_disabled {
                violation("panic", format!("Ring::poll failed: {e}"));
            }
        }
        self.check_wakeups();
    }

    /// After `Ring::poll` consumed everything that was posted: every task that
    /// is ready and whose last poll returned Pending must have been woken
    /// through the waker of that poll.
    /// Every completion the kernel posted has been processed by `Ring::poll`.
    fn cq_drained(&self) -> bool {
        kernel::with(|k| {
            let r = &k.rings[self.ring_id];
            r.cq_ready() == 0 && r.overflow.is_empty() && r.deferred.is_empty() && !r.cq_mem.dead
        })
    }

    /// With the completion queue drained: does task `i` have a result (or
    /// the end of its stream) waiting that its next poll must return?
    /// `None`: no statement (composites, series of single reads, interrupted
    /// attempts that are restarted instead).
    fn must_resolve(&self, i: usize) -> Option<bool> {
        let t = &self.tasks[i];
        if ops::is_composite(t.kind) || t.kind == Kind::ReceiveSignals || self.unconsumed(t.id) {
            return None;
        }
        let recs = Self::recs(t.id);
        let (items, complete, last_done) = script_of(&recs, &t.expect);
        if t.kind.is_iter() {
            return Some(items.len() > t.matched || (complete && last_done));
        }
        let last = recs.last()?;
        let res = if last.zc { last.cqes.first() } else { last.cqes.last() }.map_or(0, |c| c.0);
        if !last.done || is_interrupt(res) {
            return None;
        }
        Some(true)
    }

    fn check_wakeups(&mut self) {
        let drained = self.cq_drained();
        if !drained {
            stats::inc(C::fault_cq_batch_split);
            return;
        }
        for i in 0..self.tasks.len() {
            let t = &self.tasks[i];
            if t.dropped || t.finished || !t.polled || !t.last_pending || t.blocked_on_sq {
                continue;
            }
            if ops::is_composite(t.kind) {
                // Ready-ness of a composite is the ready-ness of its current step.
                let recs = Self::recs(t.id);
                if recs.last().is_some_and(|r| r.done) && !self.unconsumed(t.id) && !t.wakers.fired() {
                    violation(
                        "wake.lost-completion",
                        format!("{} (op#{}): step completed and was consumed by Ring::poll but the waker of its last poll was not invoked", t.name, t.id),
                    );
                }
                continue;
            }
            let (items, complete, last_done) = self.script(i);
            let ready = if t.kind == Kind::ReceiveSignals {
                // A series of single reads: ready when the latest one is done.
                items.len() > t.matched && !self.unconsumed(t.id)
            } else if t.kind.is_iter() {
                items.len() > t.matched || (complete && last_done)
            } else {
                // Also ready when an attempt was interrupted: the future has
                // to be polled to restart it.
                Self::recs(t.id).last().is_some_and(|r| r.done) && !self.unconsumed(t.id)
            };
            if ready && !t.wakers.fired() {
                violation(
                    "wake.lost-completion",
                    format!(
                        "{} (op#{}) is ready (completion consumed by Ring::poll) but the waker of its most recent poll was not invoked{}",
                        t.name,
                        t.id,
                        if t.wakers.generation > 0 { " (waker had been replaced)" } else { "" }
                    ),
                );
            }
        }
    }

    pub fn kernel_complete(&mut self) {
        let r = self.ring_id;
        kernel::with(|k| {
            if k.rings[r].sqpoll() && k.rings[r].sq_awake && k.rings[r].enabled {
                k.consume(r, u32::MAX);
            }
            if let Some(kid) = k.complete_some(r) {
                let _ = kid;
            }
        });
    }

    pub fn drop_fd(&mut self, close: bool) {
        // Only descriptors no live task borrows (what safe code could do).
        let cands: Vec<usize> = self
            .w
            .live_fds()
            .into_iter()
            .filter(|f| !self.tasks.iter().any(|t| !t.dropped && t.fd == Some(*f)))
            .collect();
        if cands.len() <= 1 {
            return;
        }
        let f = cands[tape::choose(site::TARGET, cands.len() as u32) as usize];
        let fd = *self.w.fds[f].take().unwrap();
        let (n, d) = ops::fd_num(&fd);
        let room = kernel::with(|k| {
            let r = &k.rings[self.ring_id];
            r.sq_pending() < r.sq_entries
        });
        if !room {
            stats::inc(C::probe_sq_full_at_drop);
        }
        if close {
            ev!("h close fd-slot {f} ({})", ops::canon_fd(n, d));
            let id = self.tasks.len() as u32;
            let fut = alloc::a10(|| fd.close());
            let task = ops::close_task(fut);
            self.tasks.push(Task {
                id,
                kind: Kind::SyncAll,
                name: "Close",
                task: Some(task),
                expect: Box::new(|rec, i| match ops::expect_err(rec.cqes[i].0) {
                    Some(e) => e,
                    None => Ok(Val::Unit),
                }),
                fd: None,
                wakers: TaskWakers::new(id),
                polled: false,
                last_pending: false,
                last_item: false,
                finished: false,
                dropped: false,
                outputs: Vec::new(),
                matched: 0,
                blocked_on_sq: false,
                sig: None,
                group: None,
            });
        } else {
            ev!("h drop fd-slot {f} ({}) room={room}", ops::canon_fd(n, d));
            let old = kernel::set_cur(NO_OP, During::Other);
            alloc::a10(|| drop(fd));
            kernel::set_cur(old.0, old.1);
        }
    }

    pub fn release_buf(&mut self) {
        if self.bufs.is_empty() {
            return;
        }
        let i = tape::choose(site::TARGET, self.bufs.len() as u32) as usize;
        let b = self.bufs.swap_remove(i);
        let explicit = tape::choose(site::TARGET, 2) == 1;
        ev!("h {} readbuf", if explicit { "release" } else { "drop" });
        let mut buf = b.buf;
        // C15: whatever was done to the buffer, releasing it gives back the
        // slot it was handed out with (address of the slot, its id).
        let ring = self.ring_id;
        let expect = kernel::with(|k| {
            k.observe_pbufs(ring);
            for (key, p) in k.rings[ring].pbufs.iter_mut() {
                if let Some(base) = p.base {
                    let size = p.buf_size as usize;
                    if b.base >= base && b.base < base + size * p.entries as usize {
                        p.last_entry = None;
                        let bid = (b.base - base) / size;
                        return Some((*key, base + bid * size, bid as u16));
                    }
                }
            }
            None
        });
        alloc::a10(|| {
            if explicit {
                buf.release();
                // Released buffers are empty and can be released/dropped again.
                assert!(buf.is_empty());
                buf.release();
            }
            drop(buf);
        });
        if let Some((key, addr, bid)) = expect {
            let last = kernel::with(|k| {
                k.observe_pbufs(ring);
                k.rings[ring].pbufs.get(&key).map(|p| p.last_entry)
            });
            if let Some(last) = last {
                if last != Some((addr, bid)) {
                    violation(
                        "readbuf.release-id",
                        format!(
                            "releasing the ReadBuf of slot #{bid} put {} into the buffer ring",
                            match last {
                                Some((a, i)) => format!("buffer id #{i} with an address {} bytes from the slot", (a as i64) - (addr as i64)),
                                None => "nothing".to_string(),
                            }
                        ),
                    );
                }
            }
        }
    }

    pub fn stdio(&mut self) {
        let which = tape::choose(site::TARGET, 4);
        if which == 3 {
            // `try_clone`: a regular descriptor is duplicated by the real
            // dup(2) (the simulated numbers are not real: EBADF), a direct one
            // cannot be cloned (Unsupported). If a clone does come back it is
            // one more owner, dropped like every other descriptor.
            let live = self.w.live_fds();
            if live.is_empty() {
                return;
            }
            let f = live[tape::choose(site::TARGET, live.len() as u32) as usize];
            let res = {
                let fd = self.w.fds[f].as_ref().unwrap();
                alloc::a10(|| fd.try_clone())
            };
            match res {
                Ok(clone) => {
                    let (n, d) = ops::fd_num(&clone);
                    if !d && n > 2 && n < kernel::FD_BASE {
                        // A real descriptor (from the pipe2(2) fallback) was
                        // really duplicated: closed for real later.
                        kernel::with(|k| k.foreign_fds.push(n));
                    }
                    let slot = self.w.add_fd(clone);
                    ev!("h try_clone of fd-slot {f} -> fd-slot {slot} ({})", ops::canon_fd(n, d));
                }
                Err(e) => ev!("h try_clone of fd-slot {f} -> {}", crate::exec::err_code(&e)),
            }
            return;
        }
        let sq = self.w.sq.clone();
        ev!("h stdio handle {which} created and dropped");
        alloc::a10(|| match which {
            0 => drop(a10::io::stdin(sq)),
            1 => drop(a10::io::stdout(sq)),
            _ => drop(a10::io::stderr(sq)),
        });
    }

    /// Edit a held `ReadBuf` and compare with the bounded byte vector model.
    pub fn edit_buf(&mut self) {
        use std::ops::Bound;
        if self.bufs.is_empty() {
            return;
        }
        let i = tape::choose(site::TARGET, self.bufs.len() as u32) as usize;
        let cap = self.bufs[i].buf.capacity();
        let len = self.bufs[i].model.len();
        let owned = self.owned_bid(i).is_some();
        if !owned {
            return;
        }
        stats::inc(C::probe_readbuf_edit);
        let which = tape::choose(site::EDIT, 10);
        let pick_idx = |max: usize| -> usize {
            // Values around the interesting boundaries.
            match tape::choose(site::EDIT, 6) {
                0 => 0,
                1 => max,
                2 => max / 2,
                3 => max + 1,
                4 => usize::MAX,
                _ => tape::choose(site::EDIT, max as u32 + 2) as usize,
            }
        };
        // The whole slot (data and spare capacity) as it is before the call.
        let slot_before: Vec<u8> = {
            let hb = &self.bufs[i];
            // SAFETY: the slot is `cap` bytes of pool memory written by the stub
            // (data or canary) and owned by this ReadBuf.
            unsafe { std::slice::from_raw_parts(hb.base as *const u8, cap) }.to_vec()
        };
        let hb = &mut self.bufs[i];
        let what: String;
        // Run the call on both; a panic on one side must be a panic on the other.
        let (got, want): (Result<(), ()>, Result<(), ()>) = match which {
            0 => {
                let n = pick_idx(len);
                what = format!("truncate({n})");
                alloc::a10(|| hb.buf.truncate(n));
                hb.model.truncate(n);
                (Ok(()), Ok(()))
            }
            1 => {
                what = "clear()".to_string();
                alloc::a10(|| hb.buf.clear());
                hb.model.clear();
                (Ok(()), Ok(()))
            }
            2 | 3 => {
                let a = pick_idx(len);
                let b = pick_idx(len);
                let forms: [(Bound<usize>, Bound<usize>); 6] = [
                    (Bound::Included(a), Bound::Excluded(b)),
                    (Bound::Unbounded, Bound::Excluded(b)),
                    (Bound::Included(a), Bound::Unbounded),
                    (Bound::Unbounded, Bound::Unbounded),
                    (Bound::Included(a), Bound::Included(b)),
                    (Bound::Excluded(a), Bound::Excluded(b)),
                ];
                let r = forms[tape::choose(site::EDIT, 6) as usize];
                what = format!("remove({r:?})");
                // Bounds whose +1 overflows panic in both (arithmetic overflow).
                let g = std::panic::catch_unwind(std::panic::AssertUnwindSafe(|| {
                    alloc::a10(|| hb.buf.remove(r));
                }))
                .map_err(|_| ());
                let w = std::panic::catch_unwind(std::panic::AssertUnwindSafe(|| {
                    hb.model.drain(r);
                }))
                .map_err(|_| ());
                (g, w)
            }
            4 if tape::chance(site::EDIT, 1, 8) => {
                // A slice whose length only fits in more than 32 bits (2^32 + k,
                // k around the spare capacity): never fits, nothing is copied.
                let extra = (1usize << 32) + tape::choose(site::EDIT, cap as u32 + 3) as usize;
                what = format!("extend_from_slice(2^32 + {} bytes)", extra - (1usize << 32));
                stats::inc(C::probe_readbuf_wide_slice);
                let data = wide_zeros(extra);
                let g = alloc::a10(|| hb.buf.extend_from_slice(data));
                (g, Err(()))
            }
            4 => {
                let extra = tape::choose(site::EDIT, cap as u32 + 3) as usize;
                let data: Vec<u8> = (0..extra).map(|x| 0x40 + x as u8).collect();
                what = format!("extend_from_slice({extra} bytes)");
                let g = alloc::a10(|| hb.buf.extend_from_slice(&data));
                let w = if hb.model.len() + extra <= cap {
                    hb.model.extend_from_slice(&data);
                    Ok(())
                } else {
                    Err(())
                };
                (g, w)
            }
            5 => {
                // Write into the spare capacity, then set_len.
                let spare = cap - len;
                let n = tape::choose(site::EDIT, spare as u32 + 1) as usize;
                what = format!("spare_capacity_mut()[..{n}] + set_len({})", len + n);
                alloc::a10(|| {
                    let s = hb.buf.spare_capacity_mut();
                    assert!(s.len() == spare, "spare capacity is {} instead of {spare}", s.len());
                    for (k, b) in s[..n].iter_mut().enumerate() {
                        b.write(0x70 + k as u8);
                    }
                    unsafe { hb.buf.set_len(len + n) };
                });
                hb.model.extend((0..n).map(|k| 0x70 + k as u8));
                (Ok(()), Ok(()))
            }
            8 if tape::chance(site::EDIT, 1, 8) => {
                // The same with more than 2^32 bytes on offer: the spare capacity
                // is filled (with zeros), not a byte more.
                let extra = (1usize << 32) + tape::choose(site::EDIT, cap as u32 + 3) as usize;
                let fits = cap - len;
                what = format!("BufMut::extend_from_slice(2^32 + {} bytes)", extra - (1usize << 32));
                stats::inc(C::probe_readbuf_wide_slice);
                let data = wide_zeros(extra);
                let n = alloc::a10(|| a10::io::BufMut::extend_from_slice(&mut hb.buf, data));
                hb.model.extend(std::iter::repeat_n(0u8, fits));
                if n == fits { (Ok(()), Ok(())) } else { (Err(()), Ok(())) }
            }
            8 => {
                // The `BufMut` trait's short-write append: goes through
                // `parts_mut` + `set_init` like a kernel read would.
                let extra = tape::choose(site::EDIT, cap as u32 + 3) as usize;
                let data: Vec<u8> = (0..extra).map(|x| 0x90 + x as u8).collect();
                let fits = extra.min(cap - len);
                what = format!("BufMut::extend_from_slice({extra} bytes)");
                let n = alloc::a10(|| a10::io::BufMut::extend_from_slice(&mut hb.buf, &data));
                hb.model.extend_from_slice(&data[..fits]);
                if n == fits { (Ok(()), Ok(())) } else { (Err(()), Ok(())) }
            }
            9 => {
                // What a second read is told: the spare capacity as the trait
                // reports it must be the slot's remainder, right behind the data.
                what = "BufMut::parts_mut()".to_string();
                let (ptr, n) = alloc::a10(|| unsafe { a10::io::BufMut::parts_mut(&mut hb.buf) });
                let want_ptr = hb.base + len;
                if ptr as usize == want_ptr && n as usize == cap - len { (Ok(()), Ok(())) } else { (Err(()), Ok(())) }
            }
            6 => {
                what = "as_mut_slice() writes".to_string();
                alloc::a10(|| {
                    for b in hb.buf.as_mut_slice() {
                        *b = b.wrapping_add(1);
                    }
                });
                for b in &mut hb.model {
                    *b = b.wrapping_add(1);
                }
                (Ok(()), Ok(()))
            }
            _ => {
                let n = tape::choose(site::EDIT, len as u32 + 1) as usize;
                what = format!("set_len({n})");
                alloc::a10(|| unsafe { hb.buf.set_len(n) });
                hb.model.truncate(n);
                (Ok(()), Ok(()))
            }
        };
        // Reset a possibly recorded panic message.
        if got.is_err() {
            crate::run::clear_panic();
        }
        ev!("h readbuf {what} -> {got:?}");
        trace(&[tag::STEP, 100 + which]);
        if got != want {
            violation(
                "readbuf.model-mismatch",
                format!("{what} on a buffer of {len} bytes (capacity {cap}): ReadBuf {got:?}, byte vector model {want:?}"),
            );
        }
        let hb = &mut self.bufs[i];
        // The edit must not move the buffer inside (or out of) its slot.
        let now = hb.buf.as_slice().as_ptr() as usize;
        let spare = hb.buf.spare_capacity_mut();
        let spare_end = spare.as_ptr() as usize + spare.len();
        if now != hb.base || spare_end > hb.base + cap {
            violation(
                "readbuf.release-id",
                format!(
                    "after {what} the buffer starts {} bytes into its slot and its spare capacity ends {} bytes past the slot",
                    now.wrapping_sub(hb.base) as isize,
                    spare_end as isize - (hb.base + cap) as isize
                ),
            );
            hb.base = now;
        }
        let hb = &self.bufs[i];
        if hb.buf.as_slice() != hb.model.as_slice() || hb.buf.len() != hb.model.len() {
            violation(
                "readbuf.model-mismatch",
                format!(
                    "after {what} on a buffer of {len} bytes: ReadBuf holds {:?}, model {:?}",
                    hb.buf.as_slice(),
                    hb.model
                ),
            );
        } else if hb.buf.as_slice().as_ptr() as usize == hb.base {
            // Behind the new length nothing may have changed: an edit moves or
            // writes bytes of the buffer, it never brings bytes in from
            // elsewhere (e.g. by copying too much and reading the next slot).
            let new_len = hb.model.len();
            // SAFETY: as above.
            let slot_after = unsafe { std::slice::from_raw_parts(hb.base as *const u8, cap) };
            if let Some(off) = (new_len..cap).find(|k| slot_after[*k] != slot_before[*k]) {
                violation(
                    "readbuf.spare-clobbered",
                    format!(
                        "{what} on a buffer of {len} bytes (capacity {cap}) changed byte {off} of its slot, behind the new length {new_len}: {:#x} -> {:#x} (bytes brought in from outside the buffer)",
                        slot_before[off], slot_after[off]
                    ),
                );
            }
        }
    }

    /// Pool slot a held buffer owns, computed from its base pointer.
    fn owned_bid(&self, i: usize) -> Option<u16> {
        let hb = &self.bufs[i];
        let ptr = hb.buf.as_slice().as_ptr() as usize;
        kernel::with(|k| {
            for p in k.rings[self.ring_id].pbufs.values() {
                if let Some(base) = p.base {
                    let size = p.buf_size as usize * p.entries as usize;
                    if ptr >= base && ptr < base + size {
                        return Some(((ptr - base) / p.buf_size as usize) as u16);
                    }
                }
            }
            None
        })
    }

    /// Use a held buffer in I/O again: a second read into its spare capacity,
    /// or a write of its contents.
    pub fn buf_io(&mut self) {
        if self.bufs.is_empty() || self.w.live_fds().is_empty() {
            return;
        }
        if self.live_tasks().len() >= self.prof.max_tasks {
            return;
        }
        let i = tape::choose(site::TARGET, self.bufs.len() as u32) as usize;
        if self.owned_bid(i).is_none() {
            return;
        }
        let live = self.w.live_fds();
        let f = live[tape::choose(site::TARGET, live.len() as u32) as usize];
        let hb = self.bufs.swap_remove(i);
        let id = self.tasks.len() as u32;
        let second_read = tape::choose(site::OPKIND, 2) == 0;
        let made = ops::make_buf_io(&self.w, f, hb.buf, hb.model, second_read);
        stats::inc(C::total_ops_created);
        if second_read {
            stats::inc(C::probe_pool_second_read);
        }
        ev!("h create op#{id} {} on fd-slot {f}", made.name);
        self.tasks.push(Task {
            id,
            kind: if second_read { Kind::ReadVec } else { Kind::WriteVec },
            name: made.name,
            task: Some(made.task),
            expect: made.expect,
            fd: Some(f),
            wakers: TaskWakers::new(id),
            polled: false,
            last_pending: false,
            last_item: false,
            finished: false,
            dropped: false,
            outputs: Vec::new(),
            matched: 0,
            blocked_on_sq: false,
            sig: None,
            group: None,
        });
    }

    /// C08: the pool is partitioned between the kernel and the live buffers.
    pub fn check_pools(&mut self) {
        if self.w.pools.is_empty() && self.bufs.is_empty() {
            return;
        }
        let r = self.ring_id;
        kernel::with(|k| k.observe_pbufs(r));
        let mut owned: Vec<(u16, usize)> = Vec::new();
        for i in 0..self.bufs.len() {
            if let Some(bid) = self.owned_bid(i) {
                if let Some((_, other)) = owned.iter().find(|(b, _)| *b == bid) {
                    violation(
                        "pool.shared-slot",
                        format!("two live ReadBufs (#{other} and #{i}) own pool buffer #{bid}"),
                    );
                }
                owned.push((bid, i));
            }
            let hb = &self.bufs[i];
            if hb.buf.as_slice() != hb.model.as_slice() {
                violation(
                    "pool.overwritten",
                    format!(
                        "bytes held in a ReadBuf changed behind its back: now {:?}, were {:?}",
                        hb.buf.as_slice(),
                        hb.model
                    ),
                );
                // Report once.
                self.bufs[i].model = self.bufs[i].buf.as_slice().to_vec();
            }
        }
        let problems: Vec<String> = kernel::with(|k| {
            let mut v = Vec::new();
            for p in k.rings[r].pbufs.values() {
                let window: Vec<u16> = p.window();
                for (bid, _) in &owned {
                    if window.contains(bid) {
                        v.push(format!("pool buffer #{bid} is owned by a live ReadBuf and offered to the kernel at the same time"));
                    }
                    if !p.handed_out.contains(bid) {
                        v.push(format!("a live ReadBuf owns pool buffer #{bid} which the kernel never handed out"));
                    }
                }
            }
            v
        });
        for p in problems {
            violation("pool.double-offer", p);
        }
    }

    pub fn drop_all_bufs(&mut self) {
        while let Some(b) = self.bufs.pop() {
            alloc::a10(|| drop(b.buf));
        }
    }

    /// At quiescence, with no buffer alive and nothing in flight, the kernel
    /// can use every buffer of the pool again.
    pub fn check_pool_conservation(&mut self) {
        let r = self.ring_id;
        if !self.bufs.is_empty() {
            return;
        }
        kernel::with(|k| k.observe_pbufs(r));
        let lost: Vec<(u16, bool)> = kernel::with(|k| {
            if k.rings[r].inflight_count() > 0 {
                return Vec::new();
            }
            let mut v = Vec::new();
            for p in k.rings[r].pbufs.values() {
                for bid in &p.handed_out {
                    // Was it handed to an operation that had been dropped?
                    let abandoned = k.records.iter().any(|rec| {
                        rec.buf_ids.contains(bid) && k.dropped_ops.contains(&rec.by_op)
                    });
                    v.push((*bid, abandoned));
                }
            }
            v
        });
        for (bid, abandoned) in lost {
            if abandoned {
                stats::inc(C::probe_pool_buffer_to_abandoned_op);
                violation(
                    "pool.lost-buffer.abandoned-op",
                    format!("pool buffer #{bid} was selected by the kernel for an operation that had been dropped and is never given back"),
                );
            } else {
                violation(
                    "pool.lost-buffer",
                    format!("pool buffer #{bid} is neither offered to the kernel nor owned by a ReadBuf although no buffer is alive and nothing is in flight"),
                );
            }
        }
    }

    /// Fill the submission queue to exactly `entries` submissions: all of
    /// them must be accepted, one more must wait.
    pub fn fill_sq_probe(&mut self, entries: u32) {
        let keep = kernel::with(|k| std::mem::replace(&mut k.cfg.p_yield_act, 0));
        let fd = self.w.live_fds()[0];
        let first = self.tasks.len();
        for n in 0..=entries {
            let id = self.tasks.len() as u32;
            let made = ops::make(&mut self.w, Kind::Truncate, Some(fd), None, n as u8);
            self.tasks.push(Task {
                id,
                kind: Kind::Truncate,
                name: made.name,
                task: Some(made.task),
                expect: made.expect,
                fd: Some(fd),
                wakers: TaskWakers::new(id),
                polled: false,
                last_pending: false,
                last_item: false,
                finished: false,
                dropped: false,
                outputs: Vec::new(),
                matched: 0,
                blocked_on_sq: false,
                sig: None,
                group: None,
            });
            self.poll_task(first + n as usize);
        }
        let (pending, sqpoll) = kernel::with(|k| {
            let r = &k.rings[self.ring_id];
            (r.sq_pending(), r.sqpoll())
        });
        if !sqpoll && pending != entries {
            violation(
                "build.unusable-ring",
                format!("a submission queue granted with {entries} entries accepted {pending} submissions"),
            );
        }
        if !sqpoll && !self.tasks[first + entries as usize].blocked_on_sq {
            violation(
                "build.unusable-ring",
                format!("submission #{} was not made to wait on a queue of {entries} entries", entries + 1),
            );
        }
        kernel::with(|k| k.cfg.p_yield_act = keep);
    }

    /// Enable a ring that was built disabled.
    pub fn enable_ring(&mut self) {
        if !self.disabled {
            return;
        }
        self.disabled = false;
        if let Some(ring) = self.w.ring.as_mut() {
            ev!("h enable the ring");
            if let Err(e) = alloc::a10(|| ring.enable()) {
                violation("panic", format!("Ring::enable failed: {e}"));
            }
        }
    }

    /// One step of the generated program.
    pub fn step(&mut self) {
        self.step_no += 1;
        if self.disabled && tape::chance(site::STEP, 1, 4) {
            self.enable_ring();
        }
        stats::inc(C::total_steps);
        let p = &self.prof;
        let weights = [
            p.w_poll,
            p.w_create,
            p.w_ringpoll,
            p.w_kcomplete,
            p.w_drop,
            p.w_dropfd,
            p.w_closefd,
            p.w_relbuf,
            p.w_stdio,
            p.w_edit,
            p.w_bufio,
        ];
        let a = tape::weighted(site::STEP, &weights);
        trace(&[tag::STEP, a as u32]);
        match a {
            0 => {
                // Mostly the strict executor (poll only what was woken), but
                // an executor may also poll spuriously (join/select style
                // combinators do), with the same or a fresh waker.
                let spurious = tape::chance(site::STEP, 1, 6);
                let live: Vec<usize> = self
                    .live_tasks()
                    .into_iter()
                    .filter(|i| {
                        self.runnable(*i)
                            || (spurious && !self.tasks[*i].finished && self.tasks[*i].name != "Close")
                    })
                    .collect();
                if live.is_empty() {
                    self.create();
                } else {
                    let i = live[tape::choose(site::TARGET, live.len() as u32) as usize];
                    self.poll_task(i);
                }
            }
            1 => self.create(),
            2 => {
                let t = tape::pick(
                    site::STEP,
                    &[Some(Duration::ZERO), Some(Duration::from_millis(1)), Some(Duration::from_secs(3))],
                );
                self.ring_poll(t);
            }
            3 => {
                if !self.prof.never_complete {
                    self.kernel_complete();
                }
            }
            4 => {
                // An explicit close is always driven to completion (a close
                // future that is never polled closes nothing, by design).
                let live: Vec<usize> = self
                    .live_tasks()
                    .into_iter()
                    .filter(|i| self.tasks[*i].name != "Close" || self.tasks[*i].finished)
                    .collect();
                if !live.is_empty() {
                    let i = live[tape::choose(site::DROP, live.len() as u32) as usize];
                    self.drop_task(i);
                }
            }
            5 => self.drop_fd(false),
            6 => self.drop_fd(true),
            7 => self.release_buf(),
            8 => self.stdio(),
            9 => self.edit_buf(),
            _ => self.buf_io(),
        }
        self.check_pools();
        self.collect_alloc_violations();
    }

    /// Faults stop, the kernel completes everything it was given, the strict
    /// executor alternates "poll woken tasks" with `Ring::poll`: every task
    /// must finish within a bounded number of rounds.
    pub fn quiesce(&mut self) {
        self.enable_ring();
        ev!("h quiesce");
        kernel::with(|k| {
            let keep = k.cfg.clone();
            k.cfg = KCfg {
                sq_start: keep.sq_start,
                cq_start: keep.cq_start,
                random_layout: keep.random_layout,
                ..KCfg::default()
            };
        });
        self.faults_on = false;
        // Endless streams never finish by themselves: abandon them now.
        for i in 0..self.tasks.len() {
            if self.tasks[i].kind == Kind::ReceiveSignals && !self.tasks[i].dropped {
                self.drop_task(i);
            }
        }
        let bound = 6 * (self.tasks.len() + 4);
        // A third of the runs: the executor blocks in Ring::poll(None) once
        // nothing is runnable, like a real one does.
        let blocking_polls = tape::chance(site::STEP, 1, 3);
        for _round in 0..bound {
            // Poll every task the executor is allowed to poll.
            let mut progressed = false;
            for i in 0..self.tasks.len() {
                let mut guard = 0;
                while self.runnable(i) && guard < 64 {
                    self.poll_task(i);
                    progressed = true;
                    guard += 1;
                    if self.tasks[i].kind.is_iter() && self.tasks[i].outputs.len() > 40 {
                        // Long streams: stop consuming, drop it.
                        self.drop_task(i);
                    }
                }
            }
            // Kernel finishes what it has.
            let r = self.ring_id;
            kernel::with(|k| {
                // A submission thread that went to sleep stays asleep until a10
                // wakes it (IORING_ENTER_SQ_WAKEUP): that is not a fault.
                if k.rings[r].sqpoll() && k.rings[r].sq_awake {
                    k.consume(r, u32::MAX);
                }
                for kid in k.completable(r) {
                    k.complete_kid(r, kid, true);
                }
            });
            let unfinished = self.tasks.iter().any(|t| !t.dropped && !t.finished);
            if blocking_polls && unfinished && self.ring_alive {
                let stuck_before = kernel::with(|k| k.stuck_waits);
                // Who waits for queue space without having been woken, before
                // the call (wake-ups a10 makes after the "return" of a call
                // that never returns do not count).
                let waiting: Vec<u32> = self
                    .tasks
                    .iter()
                    .filter(|t| !t.dropped && !t.finished && t.polled && t.last_pending && t.blocked_on_sq && !t.wakers.fired())
                    .map(|t| t.id)
                    .collect();
                self.ring_poll(None);
                if kernel::with(|k| k.stuck_waits) != stuck_before {
                    // A real kernel would never have returned from that call.
                    if !report::has_violation() {
                        self.blocked_forever(&waiting);
                    }
                    self.stuck = true;
                    return;
                }
            } else {
                self.ring_poll(Some(Duration::ZERO));
            }
            let pending = self
                .tasks
                .iter()
                .filter(|t| !t.dropped && !t.finished)
                .count();
            let kernel_busy = kernel::with(|k| {
                let ring = &k.rings[r];
                ring.inflight_count() > 0 || ring.sq_pending() > 0 || ring.cq_ready() > 0 || !ring.overflow.is_empty()
            });
            if pending == 0 && !kernel_busy && !progressed {
                return;
            }
        }
        // Somebody is stuck.
        for i in 0..self.tasks.len() {
            let t = &self.tasks[i];
            if t.dropped || t.finished {
                continue;
            }
            let recs = Self::recs(t.id);
            let unconsumed = kernel::with(|k| {
                k.rings[self.ring_id].published.iter().any(|p| p.by_op == t.id)
            });
            let room = kernel::with(|k| {
                let r = &k.rings[self.ring_id];
                r.sq_pending() < r.sq_entries
            });
            if unconsumed {
                // C04: accepted into the queue, Ring::poll called again and
                // again, and the kernel never got it (e.g. a sleeping
                // submission thread that nobody wakes).
                violation(
                    "sq.lost",
                    format!(
                        "{} (op#{}): its submission was accepted into the queue but never reached the kernel although Ring::poll kept being called",
                        t.name, t.id
                    ),
                );
            } else if recs.is_empty() {
                violation(
                    "wake.lost-queue-space",
                    format!(
                        "{} (op#{}) is waiting for submission queue space; the queue has {}room and Ring::poll keeps returning, but its waker was never invoked",
                        t.name,
                        t.id,
                        if room { "" } else { "no " }
                    ),
                );
            } else if recs.last().is_some_and(|r| r.done) {
                violation(
                    "wake.lost-completion",
                    format!("{} (op#{}) completed but was never woken", t.name, t.id),
                );
                // C09: the last thing the kernel said was "interrupted" and
                // the operation was never issued again.
                let last = recs.last().unwrap();
                let res = if last.zc { last.cqes.first() } else { last.cqes.last() }.map_or(0, |c| c.0);
                if is_interrupt(res) && !ops::is_composite(t.kind) {
                    violation(
                        "restart.not-reissued",
                        format!(
                            "{} (op#{}): its last attempt ended with {} and it was never issued again although Ring::poll kept being called",
                            t.name,
                            t.id,
                            errno_name(-res)
                        ),
                    );
                }
            } else {
                violation(
                    "wake.stuck",
                    format!("{} (op#{}) never finished although the kernel completed everything", t.name, t.id),
                );
            }
        }
    }

    /// `Ring::poll(None)` was called with nothing runnable and the kernel has
    /// nothing that could ever complete: the executor sleeps for ever. That is
    /// a10's doing if a future is waiting for submission queue space that is
    /// available (C03): nobody will ever wake it.
    fn blocked_forever(&mut self, waiting_ids: &[u32]) {
        let room = kernel::with(|k| {
            let r = &k.rings[self.ring_id];
            r.sq_entries.saturating_sub(r.sq_pending())
        });
        let waiting: Vec<&Task> = self.tasks.iter().filter(|t| waiting_ids.contains(&t.id)).collect();
        if room == 0 || waiting.is_empty() {
            return;
        }
        // a10 hands out one wake-up per free slot; a wake-up that went to a
        // future which was dropped in the meantime is wasted.
        let wasted = self.tasks.iter().any(|t| t.dropped && t.wakers.fired());
        violation(
            "wake.lost-queue-space.blocking-poll",
            format!(
                "Ring::poll(None) blocks for ever (nothing is in flight) although the submission queue has room for {room} and {} future(s) wait for queue space (first: {} op#{}){}",
                waiting.len(),
                waiting[0].name,
                waiting[0].id,
                if wasted { "; an earlier wake-up for a free slot went to a future that had been dropped" } else { "" }
            ),
        );
    }

    /// Drop everything that is left. With `shuffle` the groups {tasks,
    /// descriptors, ring, buffers, pools} are dropped in a drawn order (tasks
    /// before the descriptors they borrow, as safe code must); otherwise the
    /// ring goes last. Returns true if descriptors were dropped after the ring.
    pub fn teardown(&mut self, shuffle: bool) -> bool {
        self.enable_ring();
        // Everything that is left - each task, each descriptor, the signal
        // handles, each held buffer, the pools, the Ring, and the harness's own
        // queue handle (so that a future can be the last user of the ring) - is
        // dropped in a drawn order. The only constraint is the borrow checker's:
        // a descriptor (or signal handle) goes after the tasks that borrow it.
        #[derive(Copy, Clone, PartialEq, Debug)]
        enum Item {
            Task(usize),
            Fd(usize),
            Signals,
            Buf,
            Pools,
            Ring,
            Queue,
        }
        let mut items: Vec<Item> = Vec::new();
        items.extend(self.live_tasks().into_iter().map(Item::Task));
        items.extend(self.w.live_fds().into_iter().map(Item::Fd));
        items.push(Item::Signals);
        items.extend(self.bufs.iter().map(|_| Item::Buf));
        items.push(Item::Pools);
        items.push(Item::Ring);
        items.push(Item::Queue);
        if !shuffle {
            // Tasks, descriptors, buffers, pools, then the Ring.
            items.retain(|i| *i != Item::Queue);
        }
        let mut ring_gone = false;
        let mut fds_after_ring = false;
        let mut order = String::new();
        while !items.is_empty() {
            let allowed: Vec<usize> = (0..items.len())
                .filter(|i| match items[*i] {
                    Item::Fd(f) => !self.tasks.iter().any(|t| !t.dropped && t.fd == Some(f)),
                    Item::Signals => !self.tasks.iter().any(|t| !t.dropped && t.kind.needs_signals()),
                    _ => true,
                })
                .collect();
            let j = if shuffle { allowed[tape::choose(site::DROP, allowed.len() as u32) as usize] } else { allowed[0] };
            let item = items.remove(j);
            match item {
                Item::Task(i) => {
                    order.push('T');
                    self.drop_task(i);
                }
                Item::Fd(f) => {
                    order.push('F');
                    let fd = self.w.fds[f].take().unwrap();
                    if ring_gone {
                        fds_after_ring = true;
                        stats::inc(C::probe_handle_used_after_ring_drop);
                    }
                    alloc::a10(|| drop(fd));
                }
                Item::Signals => {
                    order.push('S');
                    let sigs = std::mem::take(&mut self.w.signals);
                    if ring_gone && sigs.iter().any(Option::is_some) {
                        fds_after_ring = true;
                    }
                    alloc::a10(|| drop(sigs));
                }
                Item::Buf => {
                    order.push('B');
                    if let Some(b) = self.bufs.pop() {
                        alloc::a10(|| drop(b.buf));
                    }
                }
                Item::Pools => {
                    order.push('P');
                    let pools = std::mem::take(&mut self.w.pools);
                    alloc::a10(|| drop(pools));
                }
                Item::Queue => {
                    order.push('Q');
                    if !self.sq_dropped {
                        self.sq_dropped = true;
                        // SAFETY: never used again; `end` forgets it.
                        alloc::a10(|| unsafe { std::ptr::drop_in_place(&mut self.w.sq) });
                    }
                }
                Item::Ring => {
                    order.push('R');
                    trace(&[tag::DROP, 1000 + order.len() as u32]);
                    self.drop_ring();
                    if let Some(o) = self.w.other.take() {
                        alloc::a10(|| drop(o));
                    }
                    ring_gone = true;
                }
            }
        }
        ev!("h teardown order {order}");
        fds_after_ring
    }

    pub fn drop_ring(&mut self) {
        if let Some(ring) = self.w.ring.take() {
            let inflight = kernel::with(|k| k.rings[self.ring_id].inflight_count());
            if inflight > 0 {
                stats::inc(C::probe_ring_dropped_with_inflight);
            }
            ev!("h drop ring (in flight: {inflight})");
            let old = kernel::set_cur(NO_OP, During::Other);
            kernel::with(|k| {
                k.in_ring_drop = true;
                k.ring_drop_seen = true;
            });
            alloc::a10(|| drop(ring));
            kernel::with(|k| k.in_ring_drop = false);
            kernel::set_cur(old.0, old.1);
            self.ring_alive = false;
        }
    }

    /// Tear everything down and do the final accounting.
    pub fn end(mut self, shuffle: bool, quiesced: bool) {
        let ring_first = self.teardown(shuffle);
        let expect_clean_fds = quiesced && !ring_first;
        self.collect_alloc_violations();
        let r = self.ring_id;
        let sq_dropped = self.sq_dropped;
        let Engine { w, tasks, bufs, .. } = self;
        drop(std::mem::ManuallyDrop::into_inner(tasks));
        drop(std::mem::ManuallyDrop::into_inner(bufs));
        let World { sq, .. } = std::mem::ManuallyDrop::into_inner(w);
        if sq_dropped {
            std::mem::forget(sq);
        } else {
            alloc::a10(|| drop(sq));
        }
        final_checks(r, expect_clean_fds, ring_first);
    }

    pub fn collect_alloc_violations(&mut self) {
        for v in alloc::take_violations() {
            violation(v.class, v.detail);
        }
    }
}

/// The flattened script of one task from its kernel-side records: the outputs
/// it must produce in order, whether the stream is complete, and whether the
/// last attempt is done.
pub fn script_of(recs: &[OpRecord], expect: &ops::Expect) -> (Vec<Out>, bool, bool) {
    let mut items = Vec::new();
    let mut complete = false;
    let mut last_done = false;
    for rec in recs {
        last_done = rec.done;
        complete = false;
        for (ci, (res, flags)) in rec.cqes.iter().enumerate() {
            if flags & CQE_F_NOTIF != 0 {
                // Second step of a zero-copy send: carries no result.
                complete = true;
                continue;
            }
            let final_ = flags & CQE_F_MORE == 0 || rec.zc;
            if final_ && is_interrupt(*res) {
                // Restarted transparently.
                continue;
            }
            items.push(expect(rec, ci));
            if flags & CQE_F_MORE == 0 || (rec.zc && rec.done) {
                complete = true;
            }
        }
    }
    (items, complete, last_done)
}

/// Final accounting once every handle is gone.
pub fn final_checks(r: usize, expect_clean_fds: bool, ring_first: bool) {
    kernel::with(|k| k.check_lost_submissions(r));
    {
        kernel::with(|k| k.refresh_ring_fds());
        let (maps, fd_closed, open_fds, slots, pbufs, inflight) = kernel::with(|k| {
            let ring = &k.rings[r];
            (
                [
                    (ring.sq_mem.maps, ring.sq_mem.unmaps),
                    (ring.cq_mem.maps, ring.cq_mem.unmaps),
                    (ring.sqes_mem.maps, ring.sqes_mem.unmaps),
                ],
                ring.fd_closed,
                k.open_fds(),
                k.open_slots(r),
                ring.pbufs.values().filter(|p| !p.refused).count(),
                ring.inflight_count(),
            )
        });
        let _ = inflight;
        for (i, (m, u)) in maps.iter().enumerate() {
            if m != u {
                violation(
                    "teardown.mmap-imbalance",
                    format!("ring mapping {i}: mapped {m} times, unmapped {u} times after every handle was dropped"),
                );
            }
        }
        if !fd_closed {
            violation(
                "teardown.fd-left",
                "the ring's descriptor is still open after every handle was dropped".to_string(),
            );
        }
        if pbufs != 0 {
            violation(
                "teardown.registration-left",
                format!("{pbufs} buffer ring(s) still registered"),
            );
        }
        if ring_first && !expect_clean_fds && !report::has_violation() {
            // Descriptors of AsyncFds that were dropped after the Ring.
            let abandoned = kernel::with(|k| k.undelivered_to_dropped(r));
            let left: Vec<i32> = open_fds
                .iter()
                .copied()
                .filter(|f| !abandoned.contains(&(*f, false)))
                .collect();
            let left_slots: Vec<u32> = slots
                .iter()
                .copied()
                .filter(|s| !abandoned.contains(&(*s as i32, true)))
                .collect();
            if !left.is_empty() || !left_slots.is_empty() {
                violation(
                    "teardown.fd-left.after-ring",
                    format!(
                        "{} descriptor(s) of AsyncFds dropped after the Ring are never closed (their CLOSE request is queued to a ring nobody submits)",
                        left.len() + left_slots.len()
                    ),
                );
            }
        }
        if expect_clean_fds {
            // Descriptors the kernel created for operations that were dropped
            // before a10 processed the completion carrying them.
            let abandoned = kernel::with(|k| k.undelivered_to_dropped(r));
            for (n, d) in &abandoned {
                stats::inc(C::probe_fd_to_abandoned_op);
                violation(
                    "fd.leak.abandoned-op",
                    format!(
                        "{} {} was created by the kernel for an operation that had been dropped and is never closed",
                        if *d { "direct descriptor slot" } else { "descriptor fd#" },
                        ops::canon_fd(*n, *d)
                    ),
                );
            }
            let open_fds: Vec<i32> = open_fds
                .into_iter()
                .filter(|f| !abandoned.contains(&(*f, false)))
                .collect();
            let slots: Vec<u32> = slots
                .into_iter()
                .filter(|s| !abandoned.contains(&(*s as i32, true)))
                .collect();
            if !open_fds.is_empty() {
                violation(
                    "fd.leak",
                    format!(
                        "{} descriptor(s) never closed: {:?}",
                        open_fds.len(),
                        open_fds.iter().map(|f| f - kernel::FD_BASE).collect::<Vec<_>>()
                    ),
                );
            }
            if !slots.is_empty() {
                violation("fd.leak", format!("direct descriptor slot(s) never closed: {slots:?}"));
            }
            // Real descriptors a10 owns (signalfd, pipe2(2) fallback): closed
            // through the ring or close(2) like any other.
            let real = kernel::with(|k| k.foreign_fds.len());
            if real != 0 {
                violation(
                    "fd.leak",
                    format!("{real} real descriptor(s) owned by a10 objects (signalfd, pipe2 fallback) were never closed"),
                );
            }
        }
    }
    for v in alloc::take_violations() {
        violation(v.class, v.detail);
    }
}

/// Leak check: blocks allocated by a10 (or handed to it) during the run that
/// are still live.
/// `len` (more than 2^32) bytes of zeros: a read-only, lazily backed mapping
/// made once per process; reading it costs the shared zero page only.
fn wide_zeros(len: usize) -> &'static [u8] {
    const SIZE: usize = (1 << 32) + (1 << 20);
    static ADDR: std::sync::OnceLock<usize> = std::sync::OnceLock::new();
    let addr = *ADDR.get_or_init(|| {
        let p = unsafe {
            libc::mmap(
                std::ptr::null_mut(),
                SIZE,
                libc::PROT_READ,
                libc::MAP_PRIVATE | libc::MAP_ANONYMOUS | libc::MAP_NORESERVE,
                -1,
                0,
            )
        };
        assert!(p != libc::MAP_FAILED, "mapping 4 GiB of zeros failed");
        p as usize
    });
    assert!(len <= SIZE);
    // SAFETY: mapped above, never unmapped, read-only.
    unsafe { std::slice::from_raw_parts(addr as *const u8, len) }
}

pub fn check_leaks() {
    let (created, twice, never) = ops::tracked_summary();
    if twice > 0 {
        violation(
            "mem.double-free",
            format!("{twice} of {created} user buffers handed to operations were dropped more than once"),
        );
    }
    // What the kernel still owned when the Ring went away (the pages of a
    // zero-copy send whose notification was outstanding) can never be
    // reclaimed by a10: leaking it is the only safe outcome. Its own class.
    let (surv, surv_ops) = kernel::with(|k| (k.survivor_blocks.clone(), k.survivor_ops));
    if never > 0 {
        violation(
            if never as usize <= surv_ops { "mem.leak.kernel-owned-after-ring" } else { "mem.leak" },
            format!("{never} of {created} user buffers handed to operations were never dropped"),
        );
    }
    let leaks = alloc::leaks();
    if !leaks.is_empty() && leaks.iter().all(|l| surv.contains(&l.0)) {
        violation(
            "mem.leak.kernel-owned-after-ring",
            format!(
                "{} allocation(s) of {surv_ops} zero-copy send(s) whose notification was outstanding when the Ring was dropped are never freed (state and buffers stay marked as dropped for ever)",
                leaks.len()
            ),
        );
    } else if !leaks.is_empty() {
        let total: usize = leaks.iter().map(|l| l.1).sum();
        let mut sizes: Vec<usize> = leaks.iter().map(|l| l.1).collect();
        sizes.sort_unstable();
        sizes.truncate(8);
        violation(
            "mem.leak",
            format!(
                "{} allocation(s) ({total} bytes) made by a10 or handed to it are still live after every object was dropped (sizes {sizes:?})",
                leaks.len()
            ),
        );
    }
}
