//! Strict executor pieces: counting wakers with identities, normalised
//! outputs and the task trait.

use std::sync::Arc;
use std::sync::atomic::{AtomicU32, Ordering};
use std::task::{Context, Poll, Wake, Waker};

use crate::stats::{self, C};

pub struct WakeFlag {
    pub fired: AtomicU32,
    pub task: u32,
    pub generation: u32,
    /// Set when the flag was replaced by a newer waker: a wake through it is
    /// stale and does not make the task runnable.
    pub stale: AtomicU32,
}

impl Wake for WakeFlag {
    fn wake(self: Arc<Self>) {
        self.wake_by_ref();
    }

    fn wake_by_ref(self: &Arc<Self>) {
        self.fired.fetch_add(1, Ordering::AcqRel);
        crate::sched::progress();
        if self.stale.load(Ordering::Acquire) != 0 {
            stats::inc(C::probe_stale_waker_used);
        }
        crate::ev!("w wake task#{} gen{}", self.task, self.generation);
        crate::report::trace(&[crate::report::tag::WAKE, self.task]);
    }
}

/// Two wakers that share one data pointer and differ only in their vtable
/// (like the "local" and "remote" wakers some executors build on one task
/// object): `Waker::will_wake` tells them apart, a comparison of the data
/// pointers does not.
pub struct Twin {
    pub sides: [Arc<WakeFlag>; 2],
}

unsafe fn twin_clone_0(p: *const ()) -> std::task::RawWaker {
    unsafe { Arc::increment_strong_count(p.cast::<Twin>()) };
    std::task::RawWaker::new(p, &TWIN_VT[0])
}
unsafe fn twin_clone_1(p: *const ()) -> std::task::RawWaker {
    unsafe { Arc::increment_strong_count(p.cast::<Twin>()) };
    std::task::RawWaker::new(p, &TWIN_VT[1])
}
unsafe fn twin_wake_0(p: *const ()) {
    let t = unsafe { Arc::from_raw(p.cast::<Twin>()) };
    t.sides[0].wake_by_ref();
}
unsafe fn twin_wake_1(p: *const ()) {
    let t = unsafe { Arc::from_raw(p.cast::<Twin>()) };
    t.sides[1].wake_by_ref();
}
unsafe fn twin_wake_ref_0(p: *const ()) {
    unsafe { &*p.cast::<Twin>() }.sides[0].wake_by_ref();
}
unsafe fn twin_wake_ref_1(p: *const ()) {
    unsafe { &*p.cast::<Twin>() }.sides[1].wake_by_ref();
}
unsafe fn twin_drop(p: *const ()) {
    drop(unsafe { Arc::from_raw(p.cast::<Twin>()) });
}

static TWIN_VT: [std::task::RawWakerVTable; 2] = [
    std::task::RawWakerVTable::new(twin_clone_0, twin_wake_0, twin_wake_ref_0, twin_drop),
    std::task::RawWakerVTable::new(twin_clone_1, twin_wake_1, twin_wake_ref_1, twin_drop),
];

/// Wakers of one task.
pub struct TaskWakers {
    pub task: u32,
    pub current: Arc<WakeFlag>,
    pub generation: u32,
    /// Keeps replaced wakers alive so late wakes through them are counted.
    pub old: Vec<Arc<WakeFlag>>,
    /// Set while the task's wakers are the two sides of a twin.
    pub twin: Option<(Arc<Twin>, usize)>,
}

impl TaskWakers {
    pub fn new(task: u32) -> TaskWakers {
        TaskWakers {
            task,
            current: Arc::new(WakeFlag {
                fired: AtomicU32::new(0),
                task,
                generation: 0,
                stale: AtomicU32::new(0),
            }),
            generation: 0,
            old: Vec::new(),
            twin: None,
        }
    }

    /// Replace the waker by its twin: same data pointer, other vtable.
    pub fn replace_by_twin(&mut self) {
        self.generation += 1;
        let flag = |task, generation| {
            Arc::new(WakeFlag {
                fired: AtomicU32::new(0),
                task,
                generation,
                stale: AtomicU32::new(0),
            })
        };
        let (twin, side) = match self.twin.take() {
            Some((t, side)) => (t, 1 - side),
            None => {
                // The current waker becomes side 1 (stale), the new one side 0.
                let t = Arc::new(Twin {
                    sides: [flag(self.task, self.generation), flag(self.task, self.generation)],
                });
                (t, 0)
            }
        };
        let new = twin.sides[side].clone();
        new.fired.store(0, Ordering::Release);
        new.stale.store(0, Ordering::Release);
        twin.sides[1 - side].stale.store(1, Ordering::Release);
        let old = std::mem::replace(&mut self.current, new);
        old.stale.store(1, Ordering::Release);
        self.old.push(old);
        self.twin = Some((twin, side));
        stats::inc(C::probe_waker_replaced);
        stats::inc(C::probe_waker_twin);
    }

    /// Replace the waker by a fresh one (the task moved to another executor
    /// slot); the old one becomes stale.
    pub fn replace(&mut self) {
        self.twin = None;
        self.generation += 1;
        let new = Arc::new(WakeFlag {
            fired: AtomicU32::new(0),
            task: self.task,
            generation: self.generation,
            stale: AtomicU32::new(0),
        });
        let old = std::mem::replace(&mut self.current, new);
        old.stale.store(1, Ordering::Release);
        self.old.push(old);
        stats::inc(C::probe_waker_replaced);
    }

    pub fn waker(&self) -> Waker {
        if let Some((twin, side)) = &self.twin {
            let raw = std::task::RawWaker::new(Arc::into_raw(twin.clone()).cast(), &TWIN_VT[*side]);
            // SAFETY: the vtable functions above uphold the RawWaker contract.
            return unsafe { Waker::from_raw(raw) };
        }
        Waker::from(self.current.clone())
    }

    pub fn fired(&self) -> bool {
        self.current.fired.load(Ordering::Acquire) > 0
    }

    pub fn clear(&self) {
        self.current.fired.store(0, Ordering::Release);
    }
}

/// Normalised value an operation resolves with.
#[derive(Clone, Debug, PartialEq, Eq)]
pub enum Val {
    Unit,
    N(u64),
    /// Contents of the buffer(s) after the operation.
    Bytes(Vec<u8>),
    BytesMulti(Vec<Vec<u8>>),
    /// Buffer(s) + flags/extra.
    BytesFlags(Vec<Vec<u8>>, i32),
    BytesAddr(Vec<Vec<u8>>, String, i32),
    Fd(i32, bool),
    FdAddr(i32, bool, String),
    Fds(Vec<(i32, bool)>),
    Addr(String),
    Meta(u64, u32),
    Wait(i32),
    Bool(bool),
    Text(String),
}

/// Ok(value) or Err(raw os error; negative numbers are `io::ErrorKind`s
/// without an errno).
pub type Out = Result<Val, i32>;

pub fn err_code(e: &std::io::Error) -> i32 {
    match e.raw_os_error() {
        Some(c) => c,
        None => -(e.kind() as i32) - 1,
    }
}

pub const KIND_UNEXPECTED_EOF: i32 = -(std::io::ErrorKind::UnexpectedEof as i32) - 1;
pub const KIND_WRITE_ZERO: i32 = -(std::io::ErrorKind::WriteZero as i32) - 1;
pub const KIND_INTERRUPTED: i32 = -(std::io::ErrorKind::Interrupted as i32) - 1;
pub const KIND_UNSUPPORTED: i32 = -(std::io::ErrorKind::Unsupported as i32) - 1;

/// Objects produced by an operation that the harness has to keep (and later
/// drop) itself.
pub enum Produced {
    Fd(a10::AsyncFd),
    ReadBuf(a10::io::ReadBuf),
    Signals(a10::process::Signals),
}

/// A future or async iterator under test, type erased.
pub trait DynTask: Send {
    /// `Ready(Some(out))`: resolved / yielded an item. `Ready(None)`: the
    /// iterator ended.
    fn poll(&mut self, cx: &mut Context<'_>, produced: &mut Vec<Produced>) -> Poll<Option<Out>>;
    fn is_iter(&self) -> bool;
}
