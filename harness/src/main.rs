#![allow(dead_code, unused_mut)]
//! a10sim: deterministic simulation of a10's io_uring backend behind a
//! simulated kernel.

mod abi;
mod alloc;
mod conformance;
mod engine;
mod exec;
mod kernel;
mod kops;
mod ops;
mod orch;
mod report;
mod run;
mod scenarios;
mod sched;
mod segv;
mod stats;
mod tape;

#[global_allocator]
static GLOBAL: alloc::Tracker = alloc::Tracker;

fn arg<T: std::str::FromStr>(args: &[String], name: &str) -> Option<T> {
    args.iter()
        .position(|a| a == name)
        .and_then(|i| args.get(i + 1))
        .and_then(|v| v.parse().ok())
}

/// Remove this process's scratch directory (the `inotify` scenario) on exit.
extern "C" fn remove_scratch_at_exit() {
    scenarios::inotify::cleanup();
}

fn main() {
    let args: Vec<String> = std::env::args().collect();
    // SAFETY: registering a handler that only removes a directory.
    unsafe { libc::atexit(remove_scratch_at_exit) };
    alloc::init_debug();
    segv::install_handler();
    segv::register_stack();
    run::install_panic_hook();
    kernel::install();
    match args.get(1).map(String::as_str) {
        Some("run") => {
            let scenario = args.get(2).expect("scenario");
            let seed: u64 = arg(&args, "--seed").unwrap_or(1);
            let index: u64 = arg(&args, "--index").unwrap_or(0);
            let count: u64 = arg(&args, "--count").unwrap_or(1);
            let log = args.iter().any(|a| a == "--log");
            let mut bad = 0;
            for i in index..index + count {
                let s = tape::mix(seed, scenario, i);
                let out = run::run(scenario, run::Mode::Seed(s), log);
                if log {
                    for l in &out.lines {
                        println!("{l}");
                    }
                }
                for v in &out.violations {
                    println!("run {i}: VIOLATION {} : {}", v.class, v.detail);
                    bad += 1;
                }
                for h in &out.harness_errors {
                    println!("run {i}: HARNESS {h}");
                    bad += 1;
                }
            }
            println!("done, {bad} problems");
        }
        Some("worker") => orch::worker(&args[2..]),
        Some("hashes") => {
            // Per-run fingerprints, for the determinism proof: index, abstract
            // trace hash, number of draws, hash of the full event log, classes.
            let scenario = &args[2];
            let seed: u64 = arg(&args, "--seed").unwrap_or(1);
            let from: u64 = arg(&args, "--from").unwrap_or(0);
            let count: u64 = arg(&args, "--count").unwrap_or(100);
            let stride: u64 = arg(&args, "--stride").unwrap_or(1);
            let mut i = from;
            for _ in 0..count {
                let o = run::run(scenario, run::Mode::Seed(tape::mix(seed, scenario, i)), true);
                let mut h: u64 = 0xcbf2_9ce4_8422_2325;
                for l in &o.lines {
                    for b in l.bytes() {
                        h = (h ^ u64::from(b)).wrapping_mul(0x100_0000_01B3);
                    }
                    h = (h ^ 0xff).wrapping_mul(0x100_0000_01B3);
                }
                let classes: Vec<&str> = o.violations.iter().map(|v| v.class.as_str()).collect();
                println!("{i} {:016x} {} {:016x} {}", o.hash, o.draws, h, classes.join(","));
                i += stride;
            }
        }
        Some("tape-run") => {
            let scenario = &args[2];
            let t: Vec<u32> = args
                .get(3)
                .map(|s| s.split(',').filter_map(|x| x.parse().ok()).collect())
                .unwrap_or_default();
            let log = args.iter().any(|a| a == "--log");
            orch::tape_run(scenario, t, log);
        }
        Some("dump-tape") => {
            let scenario = &args[2];
            let seed: u64 = args[3].parse().unwrap();
            let index: u64 = args[4].parse().unwrap();
            // The tape is needed even if the run crashes: record draws as we go.
            tape::set_echo(true);
            let o = run::run(scenario, run::Mode::Seed(tape::mix(seed, scenario, index)), false);
            let t: Vec<String> = o.tape.iter().map(|d| d.2.to_string()).collect();
            println!();
            println!("TAPE {}", t.join(","));
        }
        Some("replay") => {
            let path = args.get(2).expect("replay file");
            let Some(r) = orch::read_replay(path) else {
                eprintln!("cannot read replay file {path}");
                std::process::exit(2);
            };
            let log = !args.iter().any(|a| a == "--quiet");
            // A violation found with the release-like profile replays with it.
            let rel = orch::simrel_exe();
            if r.profile == "simrel" && std::env::current_exe().ok().as_deref() != Some(rel.as_path()) && rel.exists() {
                let st = std::process::Command::new(rel).args(&args[1..]).status().expect("run the simrel build");
                std::process::exit(st.code().unwrap_or(2));
            }
            println!("replaying {} ({} draws, profile {}) for {} class {}", r.scenario, r.tape.len(), r.profile, r.property, r.class);
            if r.class == "hang" {
                // The violation is "never finishes": a watchdog thread decides.
                let (prop, path) = (r.property.clone(), path.clone());
                let secs = if r.scenario == "pool-wrap" { 120 } else { 10 };
                std::thread::spawn(move || {
                    std::thread::sleep(std::time::Duration::from_secs(secs));
                    println!("still running after {secs} s");
                    println!("VIOLATION property={prop} replay={path}");
                    std::process::exit(1);
                });
            }
            let classes = orch::tape_run(&r.scenario, r.tape, log);
            if classes.iter().any(|c| *c == r.class) {
                println!("VIOLATION property={} replay={path}", r.property);
                std::process::exit(1);
            }
            println!("not reproduced");
        }
        Some("conformance") => match conformance::run() {
            Some(0) | None => {}
            Some(n) => {
                println!("{n} script(s) differ between the real kernel and the stub");
                std::process::exit(1);
            }
        },
        Some("check") => {
            let id = args.get(2).expect("property id");
            let tier = arg::<String>(&args, "--tier")
                .or_else(|| std::env::var("VERIF_TIER").ok())
                .unwrap_or_else(|| "quick".to_string());
            let seed: u64 = arg(&args, "--seed")
                .or_else(|| std::env::var("VERIF_SEED").ok().and_then(|s| s.parse().ok()))
                .unwrap_or(1);
            std::process::exit(orch::check(id, &tier, seed));
        }
        _ => {
            eprintln!("usage: a10sim check <Cxx> [--tier quick|thorough] [--seed N] | run <scenario> [--seed N] [--index N] [--count N] [--log] | replay <file>");
            std::process::exit(2);
        }
    }
}
