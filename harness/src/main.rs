#![allow(dead_code, unused_mut)]
//! a10sim: deterministic simulation of a10's io_uring backend behind a
//! simulated kernel.

mod abi;
mod alloc;
mod engine;
mod exec;
mod kernel;
mod kops;
mod ops;
mod report;
mod run;
mod scenarios;
mod sched;
mod segv;
mod stats;
mod tape;

#[global_allocator]
static GLOBAL: alloc::Tracker = alloc::Tracker;

fn arg<T: std::str::FromStr>(args: &[String], name: &str) -> Option<T> {
    args.iter()
        .position(|a| a == name)
        .and_then(|i| args.get(i + 1))
        .and_then(|v| v.parse().ok())
}

fn main() {
    let args: Vec<String> = std::env::args().collect();
    segv::install_handler();
    segv::register_stack();
    run::install_panic_hook();
    kernel::install();
    match args.get(1).map(String::as_str) {
        Some("run") => {
            let scenario = args.get(2).expect("scenario");
            let seed: u64 = arg(&args, "--seed").unwrap_or(1);
            let index: u64 = arg(&args, "--index").unwrap_or(0);
            let count: u64 = arg(&args, "--count").unwrap_or(1);
            let log = args.iter().any(|a| a == "--log");
            let mut bad = 0;
            for i in index..index + count {
                let s = tape::mix(seed, scenario, i);
                let out = run::run(scenario, run::Mode::Seed(s), log);
                if log {
                    for l in &out.lines {
                        println!("{l}");
                    }
                }
                for v in &out.violations {
                    println!("run {i}: VIOLATION {} : {}", v.class, v.detail);
                    bad += 1;
                }
                for h in &out.harness_errors {
                    println!("run {i}: HARNESS {h}");
                    bad += 1;
                }
            }
            println!("done, {bad} problems");
        }
        _ => {
            eprintln!("usage: a10sim run <scenario> [--seed N] [--index N] [--count N] [--log]");
            std::process::exit(2);
        }
    }
}
