//! One integer decides everything: PRNG -> choice tape. Every decision of a
//! run goes through [`choose`]; the sequence of values is the run's tape and
//! replaying the tape reproduces the run.

use std::sync::Mutex;

#[derive(Clone)]
pub struct Rng([u64; 4]);

fn splitmix(x: &mut u64) -> u64 {
    *x = x.wrapping_add(0x9E37_79B9_7F4A_7C15);
    let mut z = *x;
    z = (z ^ (z >> 30)).wrapping_mul(0xBF58_476D_1CE4_E5B9);
    z = (z ^ (z >> 27)).wrapping_mul(0x94D0_49BB_1331_11EB);
    z ^ (z >> 31)
}

impl Rng {
    pub fn new(seed: u64) -> Rng {
        let mut s = seed;
        Rng([
            splitmix(&mut s),
            splitmix(&mut s),
            splitmix(&mut s),
            splitmix(&mut s),
        ])
    }

    pub fn next(&mut self) -> u64 {
        let s = &mut self.0;
        let result = s[1].wrapping_mul(5).rotate_left(7).wrapping_mul(9);
        let t = s[1] << 17;
        s[2] ^= s[0];
        s[3] ^= s[1];
        s[1] ^= s[2];
        s[0] ^= s[3];
        s[2] ^= t;
        s[3] = s[3].rotate_left(45);
        result
    }
}

/// Mix the batch seed, scenario and run index into the seed of one run.
pub fn mix(verif_seed: u64, scenario: &str, index: u64) -> u64 {
    let mut h = verif_seed ^ 0xA10_A10_A10;
    for b in scenario.bytes() {
        h = (h ^ u64::from(b)).wrapping_mul(0x100_0000_01B3);
    }
    let mut x = h ^ index.wrapping_mul(0x9E37_79B9_7F4A_7C15);
    splitmix(&mut x)
}

pub struct Tape {
    rng: Option<Rng>,
    replay: Vec<u32>,
    pos: usize,
    /// (site, n, value) per draw.
    pub record: Vec<(u16, u32, u32)>,
    pub draws: u64,
}

static TAPE: Mutex<Tape> = Mutex::new(Tape {
    rng: None,
    replay: Vec::new(),
    pos: 0,
    record: Vec::new(),
    draws: 0,
});

fn tape() -> std::sync::MutexGuard<'static, Tape> {
    match TAPE.lock() {
        Ok(g) => g,
        Err(e) => e.into_inner(),
    }
}

/// Start a run drawing from a PRNG.
pub fn start_random(seed: u64) {
    let mut t = tape();
    t.rng = Some(Rng::new(seed));
    t.replay.clear();
    t.pos = 0;
    t.record.clear();
    t.draws = 0;
}

/// Start a run replaying `values`; draws past the end return 0.
pub fn start_replay(values: Vec<u32>) {
    let mut t = tape();
    t.rng = None;
    t.replay = values;
    t.pos = 0;
    t.record.clear();
    t.draws = 0;
}

static ECHO: std::sync::atomic::AtomicBool = std::sync::atomic::AtomicBool::new(false);

/// Echo every draw to stdout as it happens (so the tape of a crashing run can
/// be recovered).
pub fn set_echo(on: bool) {
    ECHO.store(on, std::sync::atomic::Ordering::Relaxed);
}

pub fn take_record() -> Vec<(u16, u32, u32)> {
    std::mem::take(&mut tape().record)
}

pub fn draws() -> u64 {
    tape().draws
}

/// Draw a value in `0..n`. Value 0 is always the plainest alternative.
pub fn choose(site: u16, n: u32) -> u32 {
    if n <= 1 {
        return 0;
    }
    // The tape is harness bookkeeping, whoever asks.
    crate::alloc::harness(|| choose_inner(site, n))
}

fn choose_inner(site: u16, n: u32) -> u32 {
    let mut t = tape();
    t.draws += 1;
    let v = if let Some(rng) = &mut t.rng {
        (rng.next() % u64::from(n)) as u32
    } else {
        let p = t.pos;
        t.pos += 1;
        t.replay.get(p).copied().unwrap_or(0) % n
    };
    t.record.push((site, n, v));
    if ECHO.load(std::sync::atomic::Ordering::Relaxed) {
        use std::io::Write;
        let mut o = std::io::stdout().lock();
        let _ = write!(o, "d{v},");
        let _ = o.flush();
    }
    v
}

/// True with probability `num/den`; `false` is the plain alternative.
pub fn chance(site: u16, num: u32, den: u32) -> bool {
    if num == 0 {
        return false;
    }
    let v = choose(site, den);
    // Map the *high* values to true so that 0 stays "no".
    v >= den - num.min(den)
}

/// Draw from a list, the first entry being the plainest.
pub fn pick<T: Copy>(site: u16, items: &[T]) -> T {
    items[choose(site, items.len() as u32) as usize]
}

/// Weighted pick: returns index; index 0 should be the plainest.
pub fn weighted(site: u16, weights: &[u32]) -> usize {
    let total: u32 = weights.iter().sum();
    if total == 0 {
        return 0;
    }
    let mut v = choose(site, total);
    for (i, w) in weights.iter().enumerate() {
        if v < *w {
            return i;
        }
        v -= w;
    }
    0
}

// Draw sites. Only used for logging/shrinking, never for decisions.
pub mod site {
    pub const CFG: u16 = 1;
    pub const STEP: u16 = 2;
    pub const OPKIND: u16 = 3;
    pub const TARGET: u16 = 4;
    pub const KSTEP: u16 = 5;
    pub const KPICK: u16 = 6;
    pub const OUTCOME: u16 = 7;
    pub const LEN: u16 = 8;
    pub const ERRNO: u16 = 9;
    pub const SCHED: u16 = 10;
    pub const WAKER: u16 = 11;
    pub const FAULT: u16 = 12;
    pub const GEOM: u16 = 13;
    pub const COUNTER: u16 = 14;
    pub const BUF: u16 = 15;
    pub const CANCEL: u16 = 16;
    pub const YIELDK: u16 = 17;
    pub const DROP: u16 = 18;
    pub const DATA: u16 = 19;
    pub const EDIT: u16 = 20;
    pub const BUILD: u16 = 21;
}
