//! Orchestrator: `check`, `worker`, `replay`, tape shrinking and evidence.

use std::collections::{BTreeMap, HashSet};
use std::io::{BufRead, BufReader, Write};
use std::process::{Command, Stdio};
use std::time::{Duration, Instant};

use crate::run::{self, Mode};
use crate::{stats, tape};

pub struct Check {
    pub id: &'static str,
    /// (scenario, quick runs, thorough runs, profile)
    pub scenarios: &'static [(&'static str, u64, u64)],
    /// Violation class prefixes this property owns.
    pub owns: &'static [&'static str],
    pub level: &'static str,
    pub rule: &'static str,
    pub assumptions: &'static [&'static str],
    /// Probes that must be non-zero for the evidence to be meaningful.
    pub probes: &'static [&'static str],
}

pub const STUB_ASSUMPTIONS: &[&str] = &[
    "The Linux io_uring implementation is a stub (simulated kernel) whose semantics follow io_uring_enter(2)/io_uring_register(2) and raw-syscall probes on Linux 6.18; real code: all of a10, std Mutex/Arc/atomics, the allocator (wrapped)",
    "Interleavings are explored at yield-point granularity (cfg(a10_verif) hooks); hardware memory ordering is not modelled",
    "Sampling, not proof: a clean batch is evidence for the explored seeds only",
];

pub const CHECKS: &[Check] = &[
    Check {
        id: "C01",
        scenarios: &[("life", 300_000, 6_000_000), ("pool", 100_000, 2_000_000), ("teardown", 100_000, 2_000_000), ("mt-teardown", 15_000, 400_000), ("pool-cross", 60_000, 1_200_000)],
        owns: &["mem.freed-while-kernel-owns"],
        level: "exploration",
        rule: "one case = one seeded run of a random program (3-40 steps: create/poll/drop operations of ~75 kinds, Ring::poll, kernel consume/complete with drawn outcomes, descriptor and ring drops) against the simulated kernel; distinct = distinct abstract trace hash (sequence of actor/action/op kind/outcome class); non-trivial = at least one fault fired or the kernel acted at a yield point inside a10",
        assumptions: STUB_ASSUMPTIONS,
        probes: &["probe_drop_running", "probe_drop_after_first_cqe", "probe_restart_taken", "probe_ring_dropped_with_inflight", "probe_pool_cross_ring"],
    },
    Check {
        id: "C02",
        scenarios: &[("life", 250_000, 5_000_000), ("cq", 250_000, 5_000_000), ("mt-life", 12_000, 400_000), ("pool-wrap", 24, 72)],
        owns: &["res."],
        level: "exploration",
        rule: "one case = one seeded run; every output of every future/iterator is compared with the results the simulated kernel scripted for that very submission (attributable values); distinct = distinct abstract trace hash; non-trivial = a fault fired or the kernel acted at a yield point",
        assumptions: STUB_ASSUMPTIONS,
        probes: &["probe_zc_two_step", "probe_drop_multishot_midstream"],
    },
    Check {
        id: "C03",
        scenarios: &[("life", 200_000, 4_000_000), ("blocked", 200_000, 4_000_000), ("mt-life", 15_000, 500_000)],
        owns: &["wake."],
        level: "exploration",
        rule: "one case = one seeded run under the strict executor (a task is re-polled only if the waker of its most recent poll fired); after faults stop every task must finish within 6*(tasks+4) rounds of poll-woken-tasks/Ring::poll; distinct = distinct abstract trace hash; non-trivial = fault fired, kernel acted at a yield point or a thread switch happened",
        assumptions: STUB_ASSUMPTIONS,
        probes: &["probe_sq_full_at_poll", "probe_waker_replaced", "probe_blocked_future_woken"],
    },
    Check {
        id: "C04",
        scenarios: &[("mt-sq", 30_000, 1_000_000), ("life", 150_000, 3_000_000), ("build", 40_000, 800_000)],
        owns: &["sq."],
        level: "exploration",
        rule: "one case = one seeded run of 2-4 submitter threads (baton scheduler, preemption at every yield point) on rings of 1-4 entries with counters starting at 0, 2^31-k or 2^32-k; the kernel checks every consumed entry against what was published, single-issuer and SQPOLL rings included, and at the end of a run everything accepted before the Ring was dropped has been consumed; distinct = distinct abstract trace hash; non-trivial = a thread switch or fault happened",
        assumptions: STUB_ASSUMPTIONS,
        probes: &["probe_sq_counter_wrapped", "probe_concurrent_submit", "probe_thread_switches"],
    },
    Check {
        id: "C05",
        scenarios: &[("cq", 350_000, 7_000_000), ("life", 150_000, 3_000_000), ("mt-life", 12_000, 400_000)],
        owns: &["cq."],
        level: "exploration",
        rule: "one case = one seeded run with completion queues of 1-16 entries, counters starting anywhere (incl. 2^32-k), batches split across Ring::poll calls, overflow, SKIP padding and reserved user_data completions; unpublished/released slots are poisoned (guard page); distinct = distinct abstract trace hash; non-trivial = a fault fired",
        assumptions: STUB_ASSUMPTIONS,
        probes: &["probe_cq_counter_wrapped", "probe_cq_overflow_flushed", "fault_skip_padding", "fault_stray_zero"],
    },
    Check {
        id: "C06",
        scenarios: &[("life", 350_000, 7_000_000), ("restart", 150_000, 3_000_000), ("mt-teardown", 15_000, 400_000), ("mt-life", 12_000, 400_000)],
        owns: &["cancel.", "mem.double-free", "mem.leak"],
        level: "exploration",
        rule: "one case = one seeded run; at every drop the submissions made by the drop are inspected (at most one ASYNC_CANCEL aimed at that operation), the allocator detects double frees, and live a10 allocations are counted after everything was dropped; distinct = distinct abstract trace hash; non-trivial = fault fired or kernel acted at a yield point",
        assumptions: STUB_ASSUMPTIONS,
        probes: &["probe_drop_running", "probe_drop_not_started", "probe_drop_done_unpolled", "probe_sq_full_at_drop", "fault_cancel_loses"],
    },
    Check {
        id: "C07",
        scenarios: &[("fd", 500_000, 10_000_000)],
        owns: &["fd."],
        level: "exploration",
        rule: "one case = one seeded history of descriptor-creating operations, drops and explicit closes (regular and direct, full queue fallback, close(2)/CLOSE errors after release, try_clone, signalfd conversions, pipe2 fallback) checked against the kernel's descriptor ledger and the ledger of real descriptors; distinct = distinct abstract trace hash; non-trivial = a fault fired or kernel acted at a yield point",
        assumptions: STUB_ASSUMPTIONS,
        probes: &["probe_sync_close_fallback", "probe_direct_close", "probe_fd_to_abandoned_op"],
    },
    Check {
        id: "C08",
        scenarios: &[("pool", 450_000, 9_000_000), ("mt-pool", 20_000, 500_000), ("pool-wrap", 16, 96), ("pool-cross", 60_000, 1_200_000)],
        owns: &["pool."],
        level: "exploration",
        rule: "one case = one seeded history of pool reads, multishot reads, edits, releases and drops; after every step {kernel window} + {owned by live ReadBufs} partitions the pool; distinct = distinct abstract trace hash; non-trivial = fault fired, kernel acted at a yield point or thread switch",
        assumptions: STUB_ASSUMPTIONS,
        probes: &["probe_pool_enobufs", "probe_pool_second_read", "probe_pool_buffer_to_abandoned_op", "probe_pool_cross_ring"],
    },
    Check {
        id: "C09",
        scenarios: &[("restart", 500_000, 10_000_000)],
        owns: &["restart."],
        level: "exploration",
        rule: "one case = one seeded run where completions are EINTR/ECANCELED with high probability (also first step of zero-copy sends, end of multishot streams); re-submissions must be byte-identical and the caller sees only the last attempt; distinct = distinct abstract trace hash; non-trivial = an interruption fired",
        assumptions: STUB_ASSUMPTIONS,
        probes: &["probe_restart_taken", "probe_restart_multishot", "fault_eintr", "fault_ecanceled"],
    },
    Check {
        id: "C10",
        scenarios: &[("composite", 600_000, 12_000_000)],
        owns: &["io."],
        level: "exploration",
        rule: "one case = one composite call (write_all/_vectored, send_all/_vectored, read_n/_vectored, recv_n/_vectored; shapes of 1-8 buffers with empty ones, offsets, flags, zero-copy) under a drawn sequence of short counts; the kernel-side stream must equal the input; distinct = distinct abstract trace hash; non-trivial = at least one short transfer",
        assumptions: STUB_ASSUMPTIONS,
        probes: &["probe_composite_continuation", "probe_composite_boundary_split", "probe_composite_empty_buffer", "probe_composite_direct"],
    },
    Check {
        id: "C11",
        scenarios: &[("mt-wake", 150_000, 3_000_000)],
        owns: &["wakeup."],
        level: "exploration",
        rule: "one case = one seeded interleaving of a poller thread and 1-3 waker threads (baton scheduler) on default, SQPOLL and single-issuer rings; every wake() is owed to the first poll that is in (or later enters) its kernel wait, and that wait must not run into its timeout or block for ever (kernel wait log and call stamps from one event counter); scheduling is uniform preemption or PCT; every atomic access of a10 is a scheduling point; distinct = distinct abstract trace hash; non-trivial = a thread switch happened",
        assumptions: STUB_ASSUMPTIONS,
        probes: &["probe_wake_while_blocked", "probe_wake_before_poll", "probe_wake_after_ring_drop"],
    },
    Check {
        id: "C12",
        scenarios: &[("teardown", 450_000, 9_000_000), ("mt-teardown", 25_000, 600_000)],
        owns: &["teardown.", "mem.leak", "mem.double-free", "mem.freed-while-kernel-owns"],
        level: "exploration",
        rule: "one case = one seeded object graph (ring, queue clones, descriptors, operations in every state, pools, buffers) dropped item by item in a drawn order (each task, descriptor, buffer, the pools, the Ring, the last queue handle), a third of the runs with zero-copy notifications that outlive the Ring; guard pages, mmap ledger, descriptor ledger, registrations and allocator are checked afterwards; distinct = distinct abstract trace hash; non-trivial = fault fired or kernel acted at a yield point",
        assumptions: STUB_ASSUMPTIONS,
        probes: &["probe_ring_dropped_with_inflight", "probe_ring_dropped_first", "probe_sync_cancel_cancelled"],
    },
    Check {
        id: "C15",
        scenarios: &[("pool", 500_000, 10_000_000)],
        owns: &["readbuf."],
        level: "exploration",
        rule: "one case = one seeded history including edit sequences on kernel-filled ReadBufs compared call by call with a capacity-bounded Vec<u8> model, with neighbouring slots canaried; distinct = distinct abstract trace hash; non-trivial = at least one edit happened next to a live neighbour",
        assumptions: STUB_ASSUMPTIONS,
        probes: &["probe_readbuf_edit", "probe_readbuf_wide_slice"],
    },
    Check {
        id: "C17",
        scenarios: &[("inotify", 80_000, 2_000_000)],
        owns: &["notify."],
        level: "exploration",
        rule: "one case = one scripted stream of inotify records batched into reads in a drawn way; watches are directories, files and hard links (re-registration of a watch descriptor); yielded events are compared with the script (paths of watched files byte for byte) and held events are checked against later buffer reuse; distinct = distinct abstract trace hash; non-trivial = more than one read or a held event",
        assumptions: STUB_ASSUMPTIONS,
        probes: &["probe_inotify_event_held", "probe_inotify_multi_read"],
    },
    Check {
        id: "C18",
        scenarios: &[("build", 300_000, 6_000_000)],
        owns: &["build.", "teardown.mmap-imbalance"],
        level: "fault_enumeration",
        rule: "one case = one configuration (sizes, clamp, kernel thread, affinity, single issuer, defer taskrun, disabled, attach, direct descriptors) x one fault point (none, setup errno, each required feature missing, mmap 1-3, madvise 1-3, register failure); every fault point is hit; distinct = distinct (configuration class, fault point, outcome) cell",
        assumptions: STUB_ASSUMPTIONS,
        probes: &["probe_build_err", "probe_build_ok", "fault_mmap_fail", "fault_madvise_fail", "fault_register_fail", "fault_setup_fail", "fault_feature_missing"],
    },
];

pub fn json_str(s: &str) -> String {
    let mut o = String::with_capacity(s.len() + 2);
    o.push('"');
    for c in s.chars() {
        match c {
            '"' => o.push_str("\\\""),
            '\\' => o.push_str("\\\\"),
            '\n' => o.push_str("\\n"),
            '\t' => o.push_str("\\t"),
            c if (c as u32) < 0x20 => o.push_str(&format!("\\u{:04x}", c as u32)),
            c => o.push(c),
        }
    }
    o.push('"');
    o
}

fn exe() -> std::path::PathBuf {
    std::env::current_exe().expect("current exe")
}

/// The same harness built with the `simrel` profile (what users ship: no
/// debug assertions, wrapping arithmetic).
pub fn simrel_exe() -> std::path::PathBuf {
    let me = exe();
    me.parent()
        .and_then(|p| p.parent())
        .map_or_else(|| me.clone(), |t| t.join("simrel").join("a10sim"))
}

/// Binary that replays, shrinks and dumps tapes: the profile the violation
/// was found with.
static CHILD_BIN: std::sync::Mutex<Option<std::path::PathBuf>> = std::sync::Mutex::new(None);

fn child_bin() -> std::path::PathBuf {
    CHILD_BIN.lock().unwrap_or_else(|e| e.into_inner()).clone().unwrap_or_else(exe)
}

fn set_child_profile(profile: &str) {
    *CHILD_BIN.lock().unwrap_or_else(|e| e.into_inner()) = if profile == "simrel" { Some(simrel_exe()) } else { None };
}

// ------------------------------------------------------------------- worker

/// `worker <scenario> <seed> <start> <end> <stride> <deadline_ms>`: runs
/// indices start, start+stride, ... < end and reports on stdout.
/// Heartbeat of a worker process: a line on stdout at most every half second,
/// at the start of a run and from inside the few scenarios whose single runs
/// are long (`pool-wrap`). The orchestrator's watchdog takes silence, not a
/// fixed allowance of wall-clock time, for "the run never ends" - so a slow or
/// loaded machine cannot turn a long run into a false `hang`.
pub fn beat() {
    use std::sync::atomic::{AtomicU64, Ordering};
    static LAST: AtomicU64 = AtomicU64::new(0);
    static T0: std::sync::OnceLock<Instant> = std::sync::OnceLock::new();
    let now = T0.get_or_init(Instant::now).elapsed().as_millis() as u64 + 1;
    let last = LAST.load(Ordering::Relaxed);
    if last != 0 && now < last + 500 {
        return;
    }
    LAST.store(now, Ordering::Relaxed);
    if !WORKER.load(Ordering::Relaxed) {
        return;
    }
    let out = std::io::stdout();
    let mut w = out.lock();
    let _ = writeln!(w, "B");
    let _ = w.flush();
}

static WORKER: std::sync::atomic::AtomicBool = std::sync::atomic::AtomicBool::new(false);

/// Silence after which the watchdog ends a worker.
const HANG_SILENCE: Duration = Duration::from_secs(45);

pub fn worker(args: &[String]) {
    WORKER.store(true, std::sync::atomic::Ordering::Relaxed);
    let scenario = &args[0];
    let seed: u64 = args[1].parse().unwrap();
    let start: u64 = args[2].parse().unwrap();
    let end: u64 = args[3].parse().unwrap();
    let stride: u64 = args[4].parse().unwrap();
    let deadline = Instant::now() + Duration::from_millis(args[5].parse().unwrap());
    let want_samples: usize = args.get(6).and_then(|s| s.parse().ok()).unwrap_or(0);
    let out = std::io::stdout();
    let mut hashes: HashSet<u64> = HashSet::new();
    let mut runs = 0u64;
    let mut nontrivial = 0u64;
    let mut samples = 0usize;
    let mut i = start;
    beat();
    // A warm-up run so one-time allocations do not count as leaks (not for
    // `pool-wrap`: one run is seconds long and it has no leak audit).
    if scenario != "pool-wrap" {
        let _ = run::run(scenario, Mode::Seed(tape::mix(seed ^ 0xdead, scenario, 0)), false);
    }
    let base = stats::snapshot();
    while i < end {
        if runs % 64 == 0 && Instant::now() > deadline {
            break;
        }
        crate::segv::RUN_INDEX.store(i, std::sync::atomic::Ordering::Relaxed);
        beat();
        let s = tape::mix(seed, scenario, i);
        let log = samples < want_samples;
        let o = run::run(scenario, Mode::Seed(s), log);
        runs += 1;
        if o.nontrivial {
            nontrivial += 1;
            hashes.insert(o.hash);
        }
        if log && (o.nontrivial || i + stride >= end) && o.violations.is_empty() {
            samples += 1;
            let mut w = out.lock();
            let lines: Vec<String> = o.lines.iter().take(80).map(|l| json_str(l)).collect();
            let _ = writeln!(
                w,
                "SAMPLE {{\"scenario\":{},\"run_index\":{i},\"tape_len\":{},\"events\":[{}]}}",
                json_str(scenario),
                o.tape.len(),
                lines.join(",")
            );
        }
        for v in &o.violations {
            let mut w = out.lock();
            let _ = writeln!(w, "V {i} {} {}", v.class, v.detail.replace('\n', " "));
        }
        for h in &o.harness_errors {
            let mut w = out.lock();
            let _ = writeln!(w, "H {i} {}", h.replace('\n', " "));
        }
        i += stride;
    }
    let mut w = out.lock();
    let now = stats::snapshot();
    for (n, name) in stats::NAMES.iter().enumerate() {
        let d = now[n] - base[n];
        if d > 0 {
            let _ = writeln!(w, "S {name} {d}");
        }
    }
    for h in &hashes {
        let _ = writeln!(w, "T {h:x}");
    }
    let _ = writeln!(w, "D {runs} {nontrivial} {i}");
    let _ = w.flush();
}

#[derive(Default)]
struct Agg {
    runs: u64,
    nontrivial: u64,
    hashes: HashSet<u64>,
    stats: BTreeMap<String, u64>,
    /// (scenario, index, class, detail)
    violations: Vec<(String, u64, String, String)>,
    harness: Vec<(String, u64, String)>,
    samples: Vec<String>,
}

fn run_workers(bin: &std::path::Path, scenario: &str, tag: &str, seed: u64, total: u64, budget: Duration, agg: &mut Agg) {
    let tagged = format!("{scenario}{tag}");
    let tagged = tagged.as_str();
    let workers: u64 = std::env::var("VERIF_WORKERS")
        .ok()
        .and_then(|s| s.parse().ok())
        .unwrap_or_else(|| std::thread::available_parallelism().map_or(8, |n| n.get() as u64))
        .max(1);
    // Closing an inotify instance sleeps for an SRCU grace period (~10 ms of
    // wall time, no CPU): oversubscribe.
    let workers = if scenario == "inotify" { workers * 5 } else { workers };
    let results = std::sync::Mutex::new(Agg::default());
    std::thread::scope(|sc| {
        for w in 0..workers {
            let results = &results;
            sc.spawn(move || {
                let mut start = w;
                let deadline = Instant::now() + budget;
                loop {
                    if start >= total {
                        break;
                    }
                    let left = deadline.saturating_duration_since(Instant::now());
                    if left.is_zero() {
                        break;
                    }
                    let mut child = Command::new(bin)
                        .arg("worker")
                        .arg(scenario)
                        .arg(seed.to_string())
                        .arg(start.to_string())
                        .arg(total.to_string())
                        .arg(workers.to_string())
                        .arg(left.as_millis().to_string())
                        .arg(if w == 0 { "2" } else { "0" })
                        .stdout(Stdio::piped())
                        .stderr(Stdio::null())
                        .spawn()
                        .expect("spawn worker");
                    // Watchdog: a run that never ends (a10 loops or blocks
                    // forever) must not hang the check.
                    let pid = child.id() as i32;
                    let finished = std::sync::Arc::new(std::sync::atomic::AtomicBool::new(false));
                    // Milliseconds (since the spawn) at which the worker last said something.
                    let heard = std::sync::Arc::new(std::sync::atomic::AtomicU64::new(0));
                    let spawned = Instant::now();
                    {
                        let finished = finished.clone();
                        let heard = heard.clone();
                        // Safety net only: no worker may outlive its budget by this much.
                        let cap = left + Duration::from_secs(900);
                        std::thread::spawn(move || {
                            loop {
                                if finished.load(std::sync::atomic::Ordering::Acquire) {
                                    return;
                                }
                                let now = spawned.elapsed();
                                let last = Duration::from_millis(heard.load(std::sync::atomic::Ordering::Acquire));
                                if now.saturating_sub(last) > HANG_SILENCE || now > cap {
                                    break;
                                }
                                std::thread::sleep(Duration::from_millis(200));
                            }
                            unsafe { libc::kill(pid, libc::SIGTERM) };
                            std::thread::sleep(Duration::from_secs(5));
                            if !finished.load(std::sync::atomic::Ordering::Acquire) {
                                unsafe { libc::kill(pid, libc::SIGKILL) };
                            }
                        });
                    }
                    let rd = BufReader::new(child.stdout.take().unwrap());
                    let mut local = Agg::default();
                    let mut next = None;
                    let mut done = false;
                    for line in rd.lines() {
                        let Ok(line) = line else { break };
                        heard.store(spawned.elapsed().as_millis() as u64, std::sync::atomic::Ordering::Release);
                        if line == "B" {
                            continue;
                        }
                        if let Some(rest) = line.strip_prefix("V ") {
                            let mut it = rest.splitn(3, ' ');
                            let idx: u64 = it.next().and_then(|s| s.parse().ok()).unwrap_or(0);
                            let class = it.next().unwrap_or("?").to_string();
                            let detail = it.next().unwrap_or("").to_string();
                            local.violations.push((tagged.to_string(), idx, class, detail));
                        } else if let Some(rest) = line.strip_prefix("H ") {
                            let mut it = rest.splitn(2, ' ');
                            let idx: u64 = it.next().and_then(|s| s.parse().ok()).unwrap_or(0);
                            local.harness.push((tagged.to_string(), idx, it.next().unwrap_or("").to_string()));
                        } else if let Some(rest) = line.strip_prefix("S ") {
                            let mut it = rest.splitn(2, ' ');
                            let name = it.next().unwrap_or("").to_string();
                            let v: u64 = it.next().and_then(|s| s.parse().ok()).unwrap_or(0);
                            *local.stats.entry(name).or_insert(0) += v;
                        } else if let Some(rest) = line.strip_prefix("T ") {
                            if let Ok(h) = u64::from_str_radix(rest, 16) {
                                local.hashes.insert(h);
                            }
                        } else if let Some(rest) = line.strip_prefix("D ") {
                            let mut it = rest.split(' ');
                            local.runs += it.next().and_then(|s| s.parse().ok()).unwrap_or(0);
                            local.nontrivial += it.next().and_then(|s| s.parse().ok()).unwrap_or(0);
                            done = true;
                        } else if let Some(rest) = line.strip_prefix("SAMPLE ") {
                            local.samples.push(rest.to_string());
                        } else if let Some(rest) = line.strip_prefix("HUNG ") {
                            let idx: u64 = rest
                                .split(' ')
                                .find_map(|p| p.strip_prefix("run="))
                                .and_then(|s| s.trim().parse().ok())
                                .unwrap_or(start);
                            local.violations.push((
                                tagged.to_string(),
                                idx,
                                "hang".to_string(),
                                "the run never ended: a10 loops or blocks forever (killed by the watchdog)".to_string(),
                            ));
                            local.runs += idx.saturating_sub(start) / workers + 1;
                            next = Some(idx + workers);
                        } else if let Some(rest) = line.strip_prefix("SEGV ") {
                            // "class=<c> run=<i>"
                            let class = rest
                                .split(' ')
                                .find_map(|p| p.strip_prefix("class="))
                                .unwrap_or("segv.other")
                                .to_string();
                            let idx: u64 = rest
                                .split(' ')
                                .find_map(|p| p.strip_prefix("run="))
                                .and_then(|s| s.trim().parse().ok())
                                .unwrap_or(start);
                            local.violations.push((
                                tagged.to_string(),
                                idx,
                                class.clone(),
                                if class == "abort" { "the process aborted (a panic that cannot unwind, e.g. a misaligned or null pointer dereference check)".to_string() } else { "the process touched guarded memory (SIGSEGV)".to_string() },
                            ));
                            local.runs += idx.saturating_sub(start) / workers + 1;
                            next = Some(idx + workers);
                        }
                    }
                    let status = child.wait().ok();
                    finished.store(true, std::sync::atomic::Ordering::Release);
                    remove_scratch(pid);
                    if !done && next.is_none() {
                        // Died without telling us (abort, stack overflow, ...).
                        let code = status.and_then(|s| s.code()).unwrap_or(-1);
                        local.harness.push((
                            tagged.to_string(),
                            start,
                            format!("worker died unexpectedly (exit {code})"),
                        ));
                    }
                    let mut g = results.lock().unwrap();
                    g.runs += local.runs;
                    g.nontrivial += local.nontrivial;
                    g.hashes.extend(local.hashes);
                    for (k, v) in local.stats {
                        *g.stats.entry(k).or_insert(0) += v;
                    }
                    g.violations.extend(local.violations);
                    g.harness.extend(local.harness);
                    g.samples.extend(local.samples);
                    drop(g);
                    match next {
                        Some(n) => start = n,
                        None => break,
                    }
                }
            });
        }
    });
    let r = results.into_inner().unwrap();
    agg.runs += r.runs;
    agg.nontrivial += r.nontrivial;
    agg.hashes.extend(r.hashes);
    for (k, v) in r.stats {
        *agg.stats.entry(k).or_insert(0) += v;
    }
    agg.violations.extend(r.violations);
    agg.harness.extend(r.harness);
    agg.samples.extend(r.samples);
}

// ------------------------------------------------------------------ replay

pub struct Replay {
    pub property: String,
    pub class: String,
    pub scenario: String,
    pub profile: String,
    pub tape: Vec<u32>,
}

fn json_field<'a>(s: &'a str, key: &str) -> Option<&'a str> {
    let k = format!("\"{key}\":");
    let i = s.find(&k)? + k.len();
    let rest = s[i..].trim_start();
    if let Some(r) = rest.strip_prefix('"') {
        let end = r.find('"')?;
        Some(&r[..end])
    } else {
        let end = rest.find([',', '}', '\n']).unwrap_or(rest.len());
        Some(rest[..end].trim())
    }
}

pub fn read_replay(path: &str) -> Option<Replay> {
    let s = std::fs::read_to_string(path).ok()?;
    let k = "\"tape\":";
    let i = s.find(k)? + k.len();
    let rest = &s[i..];
    let a = rest.find('[')?;
    let b = rest.find(']')?;
    let tape = rest[a + 1..b]
        .split(',')
        .filter_map(|x| x.trim().parse::<u32>().ok())
        .collect();
    Some(Replay {
        property: json_field(&s, "property")?.to_string(),
        class: json_field(&s, "class")?.to_string(),
        scenario: json_field(&s, "scenario")?.to_string(),
        profile: json_field(&s, "profile").unwrap_or("sim").to_string(),
        tape,
    })
}

/// Run a tape in this process and print the classes found (used by the
/// shrinker in child processes, and by `replay`).
pub fn tape_run(scenario: &str, tape_values: Vec<u32>, log: bool) -> Vec<String> {
    let o = run::run(scenario, Mode::Tape(tape_values), log);
    if log {
        for l in &o.lines {
            println!("{l}");
        }
    }
    let mut classes = Vec::new();
    for v in &o.violations {
        println!("CLASS {} {}", v.class, v.detail);
        classes.push(v.class.clone());
    }
    for h in &o.harness_errors {
        println!("HARNESS {h}");
    }
    classes
}

/// Runs this binary with `args`; a child still running after `secs` gets the
/// watchdog's SIGTERM (it then prints `HUNG run=`), and SIGKILL a second later.
/// Returns what it wrote to stdout.
fn child_output(args: &[&str], secs: u64) -> Option<String> {
    use std::io::Read;
    // One `pool-wrap` run is seconds long (more than 2^16 pool operations).
    let secs = if args.get(1) == Some(&"pool-wrap") { secs * 12 } else { secs };
    let mut child = Command::new(child_bin())
        .args(args)
        .stdout(Stdio::piped())
        .stderr(Stdio::null())
        .spawn()
        .ok()?;
    let mut stdout = child.stdout.take()?;
    let reader = std::thread::spawn(move || {
        let mut buf = Vec::new();
        let _ = stdout.read_to_end(&mut buf);
        buf
    });
    let deadline = Instant::now() + Duration::from_secs(secs);
    let mut termed: Option<Instant> = None;
    loop {
        match child.try_wait() {
            Ok(Some(_)) => break,
            Ok(None) => {}
            Err(_) => break,
        }
        let now = Instant::now();
        match termed {
            None if now >= deadline => {
                unsafe { libc::kill(child.id() as i32, libc::SIGTERM) };
                termed = Some(now);
            }
            Some(t) if now >= t + Duration::from_secs(1) => {
                let _ = child.kill();
                let _ = child.wait();
                break;
            }
            _ => {}
        }
        std::thread::sleep(Duration::from_millis(2));
    }
    remove_scratch(child.id() as i32);
    let buf = reader.join().ok()?;
    Some(String::from_utf8_lossy(&buf).to_string())
}

/// The scratch directory a child process may have made for the `inotify`
/// scenario (named after its pid): removed when the child is gone, however it
/// ended.
fn remove_scratch(pid: i32) {
    let _ = std::fs::remove_dir_all(std::env::temp_dir().join(format!("a10sim-{pid}")));
}

/// Does `tape` still produce `class`? Runs in a child process.
fn reproduces(scenario: &str, tape_values: &[u32], class: &str) -> bool {
    let text: Vec<String> = tape_values.iter().map(u32::to_string).collect();
    let Some(s) = child_output(&["tape-run", scenario, &text.join(",")], 10) else { return false };
    s.lines().any(|l| {
        l.strip_prefix("CLASS ")
            .is_some_and(|r| r.split(' ').next() == Some(class))
            || l.strip_prefix("SEGV class=")
                .is_some_and(|r| r.split(' ').next() == Some(class))
            || (class == "hang" && l.starts_with("HUNG run="))
    })
}

fn first_ok(scenario: &str, class: &str, cands: Vec<Vec<u32>>) -> Option<Vec<u32>> {
    // Evaluate candidates in parallel, take the first (in order) that works.
    let results: Vec<bool> = std::thread::scope(|sc| {
        let hs: Vec<_> = cands
            .iter()
            .map(|c| sc.spawn(move || reproduces(scenario, c, class)))
            .collect();
        hs.into_iter().map(|h| h.join().unwrap_or(false)).collect()
    });
    results
        .iter()
        .position(|r| *r)
        .map(|i| cands[i].clone())
}

/// Hypothesis-style tape minimisation: cut the tail, delete chunks, zero and
/// lower values, while the same violation class persists.
pub fn shrink(scenario: &str, class: &str, mut t: Vec<u32>, budget: Duration) -> Vec<u32> {
    let deadline = Instant::now() + budget;
    if !reproduces(scenario, &t, class) {
        return t;
    }
    // Drop trailing zeros (implicit).
    let trim = |t: &mut Vec<u32>| {
        while t.last() == Some(&0) {
            t.pop();
        }
    };
    trim(&mut t);
    let mut improved = true;
    while improved && Instant::now() < deadline {
        improved = false;
        // 1. Shorter prefixes.
        let mut cands = Vec::new();
        let n = t.len();
        for cut in [n / 8, n / 4, n / 2, n * 3 / 4, n.saturating_sub(4), n.saturating_sub(1)] {
            if cut < n {
                cands.push(t[..cut].to_vec());
            }
        }
        if let Some(c) = first_ok(scenario, class, cands) {
            t = c;
            trim(&mut t);
            improved = true;
            continue;
        }
        // 2. Delete chunks.
        let mut size = (t.len() / 2).max(1);
        while size >= 1 && Instant::now() < deadline {
            let mut pos = 0;
            let mut any = false;
            while pos < t.len() && Instant::now() < deadline {
                let mut cands = Vec::new();
                let mut starts = Vec::new();
                for k in 0..16 {
                    let p = pos + k * size;
                    if p >= t.len() {
                        break;
                    }
                    let mut c = t.clone();
                    c.drain(p..(p + size).min(c.len()));
                    cands.push(c);
                    starts.push(p);
                }
                if cands.is_empty() {
                    break;
                }
                let n = cands.len();
                match first_ok(scenario, class, cands) {
                    Some(c) => {
                        t = c;
                        trim(&mut t);
                        any = true;
                        improved = true;
                    }
                    None => pos += n * size,
                }
            }
            if size == 1 {
                break;
            }
            size = if any { size } else { size / 2 };
            if any && size > t.len() {
                size = (t.len() / 2).max(1);
            }
        }
        // 3. Zero / lower values.
        let mut pos = 0;
        while pos < t.len() && Instant::now() < deadline {
            let mut cands = Vec::new();
            for k in 0..16 {
                let p = pos + k;
                if p >= t.len() {
                    break;
                }
                if t[p] != 0 {
                    let mut c = t.clone();
                    c[p] = 0;
                    cands.push(c);
                    if t[p] > 1 {
                        let mut c = t.clone();
                        c[p] = t[p] / 2;
                        cands.push(c);
                    }
                }
            }
            if let Some(c) = first_ok(scenario, class, cands) {
                if c != t {
                    t = c;
                    trim(&mut t);
                    improved = true;
                    continue;
                }
            }
            pos += 16;
        }
    }
    t
}

// -------------------------------------------------------------------- check

struct Known {
    property: String,
    class: String,
    contains: String,
    what: String,
}

fn read_known() -> Vec<Known> {
    // known_findings.json: {"findings":[{"property":..,"class":..,"contains":..,"what":..,"status":"open"}, ...]}
    let Ok(s) = std::fs::read_to_string("/verif/known_findings.json") else {
        return Vec::new();
    };
    let mut v = Vec::new();
    for obj in s.split('{').skip(2) {
        let status = json_field(obj, "status").unwrap_or("open");
        if status != "open" {
            continue; // fixed entries suppress nothing
        }
        if let (Some(p), Some(c)) = (json_field(obj, "property"), json_field(obj, "class")) {
            v.push(Known {
                property: p.to_string(),
                class: c.to_string(),
                contains: json_field(obj, "contains").unwrap_or("").to_string(),
                what: json_field(obj, "what").unwrap_or("").to_string(),
            });
        }
    }
    v
}

pub fn check(id: &str, tier: &str, seed: u64) -> i32 {
    let Some(chk) = CHECKS.iter().find(|c| c.id == id) else {
        eprintln!("unknown property {id}");
        return 2;
    };
    let t0 = Instant::now();
    let thorough = tier == "thorough";
    let mut agg = Agg::default();
    let budget = if thorough {
        Duration::from_secs(600)
    } else {
        Duration::from_secs(45)
    };
    let per = budget / chk.scenarios.len() as u32;
    let mut profiles = "sim";
    for (scenario, quick, thor) in chk.scenarios {
        if crate::scenarios::find(scenario).is_none() {
            continue;
        }
        let total = if thorough { *thor } else { *quick };
        let scale: f64 = std::env::var("VERIF_SCALE").ok().and_then(|s| s.parse().ok()).unwrap_or(1.0);
        if total == 0 {
            continue;
        }
        let total = ((total as f64) * scale) as u64;
        run_workers(&exe(), scenario, "", seed, total.max(1), per, &mut agg);
        // Both tiers also run the build users ship (no debug assertions,
        // wrapping arithmetic), where a10 behaves differently: a fifth (quick)
        // or a quarter (thorough) of the runs again, with other seeds.
        let rel = simrel_exe();
        if rel.exists() && *scenario != "pool-wrap" {
            let share = if thorough { 4 } else { 5 };
            run_workers(&rel, scenario, "@simrel", seed ^ 0x5eed, (total / share).max(1), per / 3, &mut agg);
            profiles = "sim + simrel";
        }
    }

    let known = read_known();
    let owns = |class: &str| {
        chk.owns.iter().any(|p| class.starts_with(p))
            || class == "panic"
            || class == "hang"
            || class == "abort"
            || class == "mem.use-after-free"
            || class == "mem.heap-overflow"
            || class.starts_with("segv")
    };
    let mut mine: Vec<&(String, u64, String, String)> =
        agg.violations.iter().filter(|v| owns(&v.2)).collect();
    mine.sort_by(|a, b| (a.0.as_str(), a.1).cmp(&(b.0.as_str(), b.1)));
    let mut known_hit: BTreeMap<usize, u64> = BTreeMap::new();
    let mut fresh: Vec<&(String, u64, String, String)> = Vec::new();
    for v in &mine {
        match known.iter().position(|k| {
            k.property == chk.id && v.2 == k.class && (k.contains.is_empty() || v.3.contains(&k.contains))
        }) {
            Some(k) => *known_hit.entry(k).or_insert(0) += 1,
            None => fresh.push(v),
        }
    }
    for (k, n) in &known_hit {
        println!(
            "KNOWN-FINDING: property={} {} [{} in {n} runs]",
            chk.id, known[*k].what, known[*k].class
        );
    }

    // Report at most three distinct fresh classes, each minimised.
    let mut reported: Vec<String> = Vec::new();
    let mut violation_lines = 0;
    let _ = std::fs::create_dir_all("/verif/replays");
    for v in &fresh {
        if reported.contains(&v.2) {
            continue;
        }
        if reported.len() >= 3 {
            break;
        }
        reported.push(v.2.clone());
        let (tagged, idx, class, detail) = (&v.0, v.1, &v.2, &v.3);
        let (scenario, profile) = tagged.split_once('@').unwrap_or((tagged.as_str(), "sim"));
        let scenario = &scenario.to_string();
        set_child_profile(profile);
        let seed = if profile == "simrel" { seed ^ 0x5eed } else { seed };
        // Recover the tape of that run in a child (it may crash).
        let out = child_output(&["dump-tape", scenario, &seed.to_string(), &idx.to_string()], 20);
        let full: Vec<u32> = out
            .map(|text| {
                match text.lines().find_map(|l| l.strip_prefix("TAPE ")) {
                    Some(t) => t.split(',').filter_map(|x| x.parse().ok()).collect(),
                    // The run crashed or hung: recover the draws echoed as "d<value>,".
                    None => text
                        .lines()
                        .next()
                        .unwrap_or("")
                        .split(',')
                        .filter_map(|x| x.strip_prefix('d').and_then(|v| v.parse().ok()))
                        .collect(),
                }
            })
            .unwrap_or_default();
        let minimised = if full.is_empty() {
            full.clone()
        } else {
            shrink(scenario, class, full.clone(), Duration::from_secs(if thorough { 60 } else { 25 }))
        };
        let same = !minimised.is_empty()
            && reproduces(scenario, &minimised, class)
            && reproduces(scenario, &minimised, class);
        // Event log of the minimised run.
        let text: Vec<String> = minimised.iter().map(u32::to_string).collect();
        let events = child_output(&["tape-run", scenario, &text.join(","), "--log"], 10).unwrap_or_default();
        let ev_json: Vec<String> = events.lines().take(400).map(json_str).collect();
        let path = format!("/verif/replays/{}-{}-{}-{}.json", chk.id, tagged.replace('@', "-"), seed, idx);
        let body = format!(
            "{{\n \"property\": {},\n \"class\": {},\n \"detail\": {},\n \"scenario\": {},\n \"profile\": {},\n \"verif_seed\": {seed},\n \"run_index\": {idx},\n \"tape\": [{}],\n \"minimised_from\": {},\n \"replayed_identically\": {},\n \"events\": [\n  {}\n ]\n}}\n",
            json_str(chk.id),
            json_str(class),
            json_str(detail),
            json_str(scenario),
            json_str(profile),
            text.join(","),
            full.len(),
            if same { 2 } else { 0 },
            ev_json.join(",\n  ")
        );
        let _ = std::fs::write(&path, body);
        println!("VIOLATION property={} replay={path}", chk.id);
        println!("  class={class} scenario={scenario} run={idx}: {detail}");
        violation_lines += 1;
    }

    // Harness errors: never a VIOLATION, exit 2.
    let mut herr = 0;
    for (sc, idx, d) in agg.harness.iter().take(5) {
        eprintln!("HARNESS-ERROR scenario={sc} run={idx}: {d}");
        herr += 1;
    }

    // Evidence.
    let wall = t0.elapsed().as_secs_f64();
    let mut faults = Vec::new();
    let mut probes = Vec::new();
    let mut totals = Vec::new();
    for (k, v) in &agg.stats {
        let e = format!("{}: {v}", json_str(k));
        if k.starts_with("fault_") {
            faults.push(e);
        } else if k.starts_with("probe_") {
            probes.push(e);
        } else {
            totals.push(e);
        }
    }
    let zero: Vec<String> = chk
        .probes
        .iter()
        .filter(|p| !agg.stats.contains_key(**p))
        .map(|p| json_str(p))
        .collect();
    let samples = if agg.samples.is_empty() {
        "{\"note\":\"no sample captured\"}".to_string()
    } else {
        agg.samples.iter().take(3).cloned().collect::<Vec<_>>().join(",\n   ")
    };
    let per_hour = if wall > 0.0 { agg.runs as f64 / wall * 3600.0 } else { 0.0 };
    let sim_ns = agg.stats.get("total_sim_ns").copied().unwrap_or(0);
    let scen: Vec<String> = chk
        .scenarios
        .iter()
        .filter(|s| crate::scenarios::find(s.0).is_some())
        .map(|s| json_str(s.0))
        .collect();
    let assumptions: Vec<String> = chk.assumptions.iter().map(|a| json_str(a)).collect();
    let evidence = format!(
        "{{\n \"property_id\": {},\n \"tier\": {},\n \"seed\": {seed},\n \"level\": {},\n \"coverage\": {{\n  \"evaluations\": {},\n  \"distinct_nontrivial\": {},\n  \"nontrivial_runs\": {},\n  \"rule\": {},\n  \"scenarios\": [{}],\n  \"profiles\": {},\n  \"runs_per_hour\": {:.0},\n  \"simulated_seconds\": {:.3},\n  \"faults_fired\": {{{}}},\n  \"probes\": {{{}}},\n  \"probes_zero\": [{}],\n  \"totals\": {{{}}},\n  \"components\": {{\"real\": [\"a10 (all of the io_uring backend and public API)\", \"std::sync Mutex/Arc/atomics\", \"real OS threads (one runnable at a time)\", \"global allocator (wrapped)\"], \"stub\": [\"Linux io_uring: io_uring_setup/enter/register\", \"ring mmap/munmap/madvise\", \"close(2) fallback of AsyncFd::drop\", \"thread scheduling (baton)\", \"time (simulated clock)\"]}},\n  \"known_finding_hits\": {},\n  \"samples\": [\n   {}\n  ]\n }},\n \"assumptions\": [{}],\n \"wall_s\": {:.2},\n \"violations\": {}\n}}\n",
        json_str(chk.id),
        json_str(if thorough { "thorough" } else { "quick" }),
        json_str(chk.level),
        agg.runs,
        agg.hashes.len(),
        agg.nontrivial,
        json_str(chk.rule),
        scen.join(","),
        json_str(profiles),
        per_hour,
        sim_ns as f64 / 1e9,
        faults.join(", "),
        probes.join(", "),
        zero.join(","),
        totals.join(", "),
        known_hit.values().sum::<u64>(),
        samples,
        assumptions.join(", "),
        wall,
        violation_lines
    );
    let _ = std::fs::create_dir_all("/verif/evidence");
    let _ = std::fs::write(format!("/verif/evidence/{}.json", chk.id), evidence);
    println!(
        "{}: {} runs, {} distinct non-trivial traces, {} violations, {} known-finding hits, {:.1}s",
        chk.id,
        agg.runs,
        agg.hashes.len(),
        violation_lines,
        known_hit.values().sum::<u64>(),
        wall
    );
    if violation_lines > 0 {
        1
    } else if herr > 0 {
        2
    } else {
        0
    }
}
