//! Counters: how often each fault kind *fired* and each rare condition was hit.

use std::sync::atomic::{AtomicU64, Ordering};

macro_rules! counters {
    ($( $name:ident ),* $(,)?) => {
        #[allow(non_camel_case_types, dead_code)]
        #[derive(Copy, Clone, Debug)]
        #[repr(usize)]
        pub enum C { $( $name ),* , _Count }
        pub const NAMES: &[&str] = &[ $( stringify!($name) ),* ];
    };
}

counters!(
    // Fault kinds (counted when fired).
    fault_eintr,
    fault_ecanceled,
    fault_short,
    fault_zero,
    fault_errno,
    fault_enobufs,
    fault_cancel_wins,
    fault_cancel_loses,
    fault_cancel_enoent,
    fault_sq_full,
    fault_cq_overflow,
    fault_cq_batch_split,
    fault_skip_padding,
    fault_stray_zero,
    fault_enter_eintr,
    fault_enter_etime,
    fault_enter_ebusy,
    fault_enter_eagain,
    fault_setup_fail,
    fault_feature_missing,
    fault_mmap_fail,
    fault_madvise_fail,
    fault_register_fail,
    fault_counter_wrap_start,
    fault_preempt,
    fault_sqpoll_sleep,
    fault_defer_taskrun_hold,
    fault_close_error,
    fault_prep_refused,
    fault_old_kernel,
    fault_single_issuer_refused,
    fault_notif_survives_cancel,
    fault_kernel_at_yield,
    // Probes: rare conditions reached.
    probe_restart_taken,
    probe_restart_multishot,
    probe_drop_running,
    probe_drop_not_started,
    probe_drop_during_unwind,
    probe_drop_done_unpolled,
    probe_drop_after_first_cqe,
    probe_drop_multishot_midstream,
    probe_drop_final_posted_unconsumed,
    probe_sq_full_at_drop,
    probe_sq_full_at_poll,
    probe_blocked_future_woken,
    probe_sq_counter_wrapped,
    probe_cq_counter_wrapped,
    probe_notif_before_poll,
    probe_zc_two_step,
    probe_multishot_batch_interleaved,
    probe_cq_overflow_flushed,
    probe_stale_waker_used,
    probe_waker_replaced,
    probe_waker_twin,
    probe_waker_shared,
    probe_sync_close_fallback,
    probe_direct_close,
    probe_fd_to_abandoned_op,
    probe_pool_buffer_to_abandoned_op,
    probe_pool_enobufs,
    probe_pool_tail_wrapped_16,
    probe_pool_second_read,
    probe_ring_dropped_with_inflight,
    probe_ring_dropped_first,
    probe_handle_used_after_ring_drop,
    probe_sync_cancel_cancelled,
    probe_wake_while_blocked,
    probe_wake_before_poll,
    probe_wake_after_ring_drop,
    probe_wake_single_issuer,
    probe_poll_clock_advanced,
    probe_thread_switches,
    probe_sched_pct,
    probe_lock_contended,
    probe_composite_continuation,
    probe_composite_boundary_split,
    probe_composite_empty_buffer,
    probe_inotify_event_held,
    probe_inotify_multi_read,
    probe_inotify_rewatch,
    probe_build_err,
    probe_build_ok,
    probe_cancel_seen,
    probe_readbuf_edit,
    probe_concurrent_submit,
    probe_mt_release,
    probe_pool_id_collision,
    probe_pool_cross_ring,
    probe_late_builder_call,
    probe_readbuf_wide_slice,
    probe_composite_direct,
    // Totals.
    total_ops_created,
    total_ops_completed,
    total_sqes,
    total_cqes,
    total_ring_polls,
    total_steps,
    total_yields,
    total_sim_ns,
);

static COUNTERS: [AtomicU64; C::_Count as usize] =
    [const { AtomicU64::new(0) }; C::_Count as usize];

pub fn inc(c: C) {
    COUNTERS[c as usize].fetch_add(1, Ordering::Relaxed);
}

pub fn add(c: C, n: u64) {
    COUNTERS[c as usize].fetch_add(n, Ordering::Relaxed);
}

pub fn get(c: C) -> u64 {
    COUNTERS[c as usize].load(Ordering::Relaxed)
}

pub fn snapshot() -> Vec<u64> {
    COUNTERS.iter().map(|c| c.load(Ordering::Relaxed)).collect()
}

/// Any fault counter non-zero since `before`?
pub fn faults_since(before: &[u64]) -> bool {
    NAMES
        .iter()
        .enumerate()
        .any(|(i, n)| n.starts_with("fault_") && COUNTERS[i].load(Ordering::Relaxed) > before[i])
}
