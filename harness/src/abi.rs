//! io_uring ABI as seen by the simulated kernel. Defined here (not taken from
//! a10) so an encoding mistake in a10 is not mirrored by the stub.
#![allow(dead_code)]

pub const OP_NOP: u8 = 0;
pub const OP_READV: u8 = 1;
pub const OP_WRITEV: u8 = 2;
pub const OP_FSYNC: u8 = 3;
pub const OP_POLL_ADD: u8 = 6;
pub const OP_POLL_REMOVE: u8 = 7;
pub const OP_SENDMSG: u8 = 9;
pub const OP_RECVMSG: u8 = 10;
pub const OP_ACCEPT: u8 = 13;
pub const OP_ASYNC_CANCEL: u8 = 14;
pub const OP_CONNECT: u8 = 16;
pub const OP_FALLOCATE: u8 = 17;
pub const OP_OPENAT: u8 = 18;
pub const OP_CLOSE: u8 = 19;
pub const OP_FILES_UPDATE: u8 = 20;
pub const OP_STATX: u8 = 21;
pub const OP_READ: u8 = 22;
pub const OP_WRITE: u8 = 23;
pub const OP_FADVISE: u8 = 24;
pub const OP_MADVISE: u8 = 25;
pub const OP_SEND: u8 = 26;
pub const OP_RECV: u8 = 27;
pub const OP_SPLICE: u8 = 30;
pub const OP_SHUTDOWN: u8 = 34;
pub const OP_RENAMEAT: u8 = 35;
pub const OP_UNLINKAT: u8 = 36;
pub const OP_MKDIRAT: u8 = 37;
pub const OP_MSG_RING: u8 = 40;
pub const OP_SOCKET: u8 = 45;
pub const OP_URING_CMD: u8 = 46;
pub const OP_SEND_ZC: u8 = 47;
pub const OP_SENDMSG_ZC: u8 = 48;
pub const OP_READ_MULTISHOT: u8 = 49;
pub const OP_WAITID: u8 = 50;
pub const OP_FIXED_FD_INSTALL: u8 = 54;
pub const OP_FTRUNCATE: u8 = 55;
pub const OP_BIND: u8 = 56;
pub const OP_LISTEN: u8 = 57;
pub const OP_PIPE: u8 = 62;

pub fn op_name(op: u8) -> &'static str {
    match op {
        OP_NOP => "NOP",
        OP_READV => "READV",
        OP_WRITEV => "WRITEV",
        OP_FSYNC => "FSYNC",
        OP_POLL_ADD => "POLL_ADD",
        OP_SENDMSG => "SENDMSG",
        OP_RECVMSG => "RECVMSG",
        OP_ACCEPT => "ACCEPT",
        OP_ASYNC_CANCEL => "ASYNC_CANCEL",
        OP_CONNECT => "CONNECT",
        OP_FALLOCATE => "FALLOCATE",
        OP_OPENAT => "OPENAT",
        OP_CLOSE => "CLOSE",
        OP_FILES_UPDATE => "FILES_UPDATE",
        OP_STATX => "STATX",
        OP_READ => "READ",
        OP_WRITE => "WRITE",
        OP_FADVISE => "FADVISE",
        OP_MADVISE => "MADVISE",
        OP_SEND => "SEND",
        OP_RECV => "RECV",
        OP_SPLICE => "SPLICE",
        OP_SHUTDOWN => "SHUTDOWN",
        OP_RENAMEAT => "RENAMEAT",
        OP_UNLINKAT => "UNLINKAT",
        OP_MKDIRAT => "MKDIRAT",
        OP_MSG_RING => "MSG_RING",
        OP_SOCKET => "SOCKET",
        OP_URING_CMD => "URING_CMD",
        OP_SEND_ZC => "SEND_ZC",
        OP_SENDMSG_ZC => "SENDMSG_ZC",
        OP_READ_MULTISHOT => "READ_MULTISHOT",
        OP_WAITID => "WAITID",
        OP_FIXED_FD_INSTALL => "FIXED_FD_INSTALL",
        OP_FTRUNCATE => "FTRUNCATE",
        OP_BIND => "BIND",
        OP_LISTEN => "LISTEN",
        OP_PIPE => "PIPE",
        _ => "?",
    }
}

// sqe.flags
pub const SQE_FIXED_FILE: u8 = 1 << 0;
pub const SQE_IO_DRAIN: u8 = 1 << 1;
pub const SQE_IO_LINK: u8 = 1 << 2;
pub const SQE_IO_HARDLINK: u8 = 1 << 3;
pub const SQE_ASYNC: u8 = 1 << 4;
pub const SQE_BUFFER_SELECT: u8 = 1 << 5;
pub const SQE_CQE_SKIP_SUCCESS: u8 = 1 << 6;

// cqe.flags
pub const CQE_F_BUFFER: u32 = 1;
pub const CQE_F_MORE: u32 = 2;
pub const CQE_F_SOCK_NONEMPTY: u32 = 4;
pub const CQE_F_NOTIF: u32 = 8;
pub const CQE_F_SKIP: u32 = 32;
pub const CQE_BUFFER_SHIFT: u32 = 16;

// setup flags
pub const SETUP_IOPOLL: u32 = 1;
pub const SETUP_SQPOLL: u32 = 2;
pub const SETUP_SQ_AFF: u32 = 4;
pub const SETUP_CQSIZE: u32 = 8;
pub const SETUP_CLAMP: u32 = 16;
pub const SETUP_ATTACH_WQ: u32 = 32;
pub const SETUP_R_DISABLED: u32 = 64;
pub const SETUP_SUBMIT_ALL: u32 = 128;
pub const SETUP_COOP_TASKRUN: u32 = 256;
pub const SETUP_TASKRUN_FLAG: u32 = 512;
pub const SETUP_SINGLE_ISSUER: u32 = 4096;
pub const SETUP_DEFER_TASKRUN: u32 = 8192;
pub const SETUP_NO_SQARRAY: u32 = 65536;

pub const FEAT_SINGLE_MMAP: u32 = 1;
pub const FEAT_NODROP: u32 = 2;
pub const FEAT_SUBMIT_STABLE: u32 = 4;
pub const FEAT_RW_CUR_POS: u32 = 8;
pub const FEAT_SQPOLL_NONFIXED: u32 = 128;
pub const FEAT_ALL: u32 = 0x3ffff;

pub const ENTER_GETEVENTS: u32 = 1;
pub const ENTER_SQ_WAKEUP: u32 = 2;
pub const ENTER_SQ_WAIT: u32 = 4;
pub const ENTER_EXT_ARG: u32 = 8;

pub const SQ_NEED_WAKEUP: u32 = 1;
pub const SQ_CQ_OVERFLOW: u32 = 2;

pub const OFF_SQ_RING: i64 = 0;
pub const OFF_CQ_RING: i64 = 0x800_0000;
pub const OFF_SQES: i64 = 0x1000_0000;

pub const REGISTER_FILES_UPDATE: u32 = 6;
pub const REGISTER_ENABLE_RINGS: u32 = 12;
pub const REGISTER_FILES2: u32 = 13;
pub const REGISTER_PBUF_RING: u32 = 22;
pub const UNREGISTER_PBUF_RING: u32 = 23;
pub const REGISTER_SYNC_CANCEL: u32 = 24;
pub const REGISTER_SEND_MSG_RING: u32 = 31;

pub const ASYNC_CANCEL_ALL: u32 = 1;
pub const ASYNC_CANCEL_FD: u32 = 2;
pub const ASYNC_CANCEL_ANY: u32 = 4;

pub const RECV_MULTISHOT: u16 = 2;
pub const ACCEPT_MULTISHOT: u16 = 1;
pub const POLL_ADD_MULTI: u32 = 1;
pub const RSRC_REGISTER_SPARSE: u32 = 1;
pub const FILE_INDEX_ALLOC: u32 = u32::MAX;

pub const SOCKET_OP_GETSOCKOPT: u32 = 2;
pub const SOCKET_OP_SETSOCKOPT: u32 = 3;
pub const SOCKET_OP_GETSOCKNAME: u32 = 5;

/// Raw 64 byte submission queue entry.
#[derive(Copy, Clone, PartialEq, Eq)]
#[repr(C, align(8))]
pub struct Sqe(pub [u8; 64]);

impl std::fmt::Debug for Sqe {
    fn fmt(&self, f: &mut std::fmt::Formatter<'_>) -> std::fmt::Result {
        write!(f, "Sqe({} fd={} len={} off={:#x})", op_name(self.opcode()), self.fd(), self.len(), self.off())
    }
}

impl Sqe {
    pub fn opcode(&self) -> u8 {
        self.0[0]
    }
    pub fn flags(&self) -> u8 {
        self.0[1]
    }
    pub fn ioprio(&self) -> u16 {
        u16::from_ne_bytes([self.0[2], self.0[3]])
    }
    pub fn fd(&self) -> i32 {
        i32::from_ne_bytes(self.0[4..8].try_into().unwrap())
    }
    /// off / addr2 / cmd_op.
    pub fn off(&self) -> u64 {
        u64::from_ne_bytes(self.0[8..16].try_into().unwrap())
    }
    /// addr / splice_off_in / (level, optname).
    pub fn addr(&self) -> u64 {
        u64::from_ne_bytes(self.0[16..24].try_into().unwrap())
    }
    pub fn len(&self) -> u32 {
        u32::from_ne_bytes(self.0[24..28].try_into().unwrap())
    }
    pub fn op_flags(&self) -> u32 {
        u32::from_ne_bytes(self.0[28..32].try_into().unwrap())
    }
    pub fn user_data(&self) -> u64 {
        u64::from_ne_bytes(self.0[32..40].try_into().unwrap())
    }
    pub fn buf_group(&self) -> u16 {
        u16::from_ne_bytes([self.0[40], self.0[41]])
    }
    pub fn personality(&self) -> u16 {
        u16::from_ne_bytes([self.0[42], self.0[43]])
    }
    /// splice_fd_in / file_index / optlen / addr_len.
    pub fn file_index(&self) -> u32 {
        u32::from_ne_bytes(self.0[44..48].try_into().unwrap())
    }
    pub fn addr3(&self) -> u64 {
        u64::from_ne_bytes(self.0[48..56].try_into().unwrap())
    }
    pub fn pad2(&self) -> u64 {
        u64::from_ne_bytes(self.0[56..64].try_into().unwrap())
    }
}

#[derive(Copy, Clone, Debug, PartialEq, Eq)]
#[repr(C)]
pub struct Cqe {
    pub user_data: u64,
    pub res: i32,
    pub flags: u32,
}

/// `struct io_uring_params`.
#[derive(Copy, Clone, Debug, Default)]
#[repr(C)]
pub struct Params {
    pub sq_entries: u32,
    pub cq_entries: u32,
    pub flags: u32,
    pub sq_thread_cpu: u32,
    pub sq_thread_idle: u32,
    pub features: u32,
    pub wq_fd: u32,
    pub resv: [u32; 3],
    pub sq_off: SqOff,
    pub cq_off: CqOff,
}

#[derive(Copy, Clone, Debug, Default)]
#[repr(C)]
pub struct SqOff {
    pub head: u32,
    pub tail: u32,
    pub ring_mask: u32,
    pub ring_entries: u32,
    pub flags: u32,
    pub dropped: u32,
    pub array: u32,
    pub resv1: u32,
    pub user_addr: u64,
}

#[derive(Copy, Clone, Debug, Default)]
#[repr(C)]
pub struct CqOff {
    pub head: u32,
    pub tail: u32,
    pub ring_mask: u32,
    pub ring_entries: u32,
    pub overflow: u32,
    pub cqes: u32,
    pub flags: u32,
    pub resv1: u32,
    pub user_addr: u64,
}

const _: () = assert!(size_of::<Params>() == 120);

#[derive(Copy, Clone, Debug)]
#[repr(C)]
pub struct GeteventsArg {
    pub sigmask: u64,
    pub sigmask_sz: u32,
    pub min_wait_usec: u32,
    pub ts: u64,
}

#[derive(Copy, Clone, Debug)]
#[repr(C)]
pub struct Timespec {
    pub tv_sec: i64,
    pub tv_nsec: i64,
}

#[derive(Copy, Clone, Debug)]
#[repr(C)]
pub struct BufReg {
    pub ring_addr: u64,
    pub ring_entries: u32,
    pub bgid: u16,
    pub flags: u16,
    pub resv: [u64; 3],
}

#[derive(Copy, Clone, Debug)]
#[repr(C)]
pub struct Buf {
    pub addr: u64,
    pub len: u32,
    pub bid: u16,
    pub resv: u16,
}

#[derive(Copy, Clone, Debug)]
#[repr(C)]
pub struct RsrcRegister {
    pub nr: u32,
    pub flags: u32,
    pub resv2: u64,
    pub data: u64,
    pub tags: u64,
}

#[derive(Copy, Clone, Debug)]
#[repr(C)]
pub struct FilesUpdate {
    pub offset: u32,
    pub resv: u32,
    pub fds: u64,
}

#[derive(Copy, Clone, Debug)]
#[repr(C)]
pub struct SyncCancelReg {
    pub addr: u64,
    pub fd: i32,
    pub flags: u32,
    pub timeout: Timespec,
    pub opcode: u8,
    pub pad: [u8; 7],
    pub pad2: [u64; 3],
}

pub fn errno_name(e: i32) -> &'static str {
    match e {
        libc::EINTR => "EINTR",
        libc::ECANCELED => "ECANCELED",
        libc::EIO => "EIO",
        libc::EBADF => "EBADF",
        libc::EAGAIN => "EAGAIN",
        libc::ENOMEM => "ENOMEM",
        libc::EPIPE => "EPIPE",
        libc::ENOSPC => "ENOSPC",
        libc::ECONNRESET => "ECONNRESET",
        libc::ENOBUFS => "ENOBUFS",
        libc::ENOENT => "ENOENT",
        libc::EALREADY => "EALREADY",
        libc::ETIME => "ETIME",
        libc::EINVAL => "EINVAL",
        libc::ENFILE => "ENFILE",
        libc::EBUSY => "EBUSY",
        libc::ENXIO => "ENXIO",
        libc::ENAMETOOLONG => "ENAMETOOLONG",
        libc::EFAULT => "EFAULT",
        libc::EOVERFLOW => "EOVERFLOW",
        libc::EEXIST => "EEXIST",
        libc::EOPNOTSUPP => "EOPNOTSUPP",
        _ => "E?",
    }
}
