//! One simulated run: reset everything, run the scenario under catch_unwind,
//! collect violations, tape, event log and trace hash.

use std::any::Any;
use std::sync::Mutex;

use crate::report::{self, Violation};
use crate::{alloc, kernel, sched, scenarios, tape};

pub enum Mode {
    Seed(u64),
    Tape(Vec<u32>),
}

pub struct Outcome {
    pub violations: Vec<Violation>,
    pub harness_errors: Vec<String>,
    pub lines: Vec<String>,
    pub tape: Vec<(u16, u32, u32)>,
    pub hash: u64,
    pub nontrivial: bool,
    pub draws: u64,
}

static LAST_PANIC: Mutex<Option<String>> = Mutex::new(None);

pub fn install_panic_hook() {
    std::panic::set_hook(Box::new(|info| {
        let msg = if let Some(s) = info.payload().downcast_ref::<&str>() {
            (*s).to_string()
        } else if let Some(s) = info.payload().downcast_ref::<String>() {
            s.clone()
        } else {
            "panic".to_string()
        };
        let loc = info
            .location()
            .map(|l| format!("{}:{}", l.file(), l.line()))
            .unwrap_or_default();
        let mut g = LAST_PANIC.lock().unwrap_or_else(|e| e.into_inner());
        *g = Some(format!("{msg} @ {loc}"));
    }));
}

/// Payload used to unwind out of a run that cannot continue.
pub struct AbortRun;

pub fn clear_panic() {
    LAST_PANIC.lock().unwrap_or_else(|e| e.into_inner()).take();
}

pub fn record_panic(payload: Box<dyn Any + Send>) {
    if payload.is::<AbortRun>() {
        clear_panic();
        return;
    }
    let msg = LAST_PANIC
        .lock()
        .unwrap_or_else(|e| e.into_inner())
        .take()
        .unwrap_or_else(|| "panic".to_string());
    if msg.contains("/verif/harness/") || msg.contains("@ src/") {
        report::harness_error(format!("harness panic: {msg}"));
    } else {
        report::violation("panic", msg);
    }
}

pub fn run(scenario: &str, mode: Mode, logging: bool) -> Outcome {
    let f = scenarios::find(scenario).unwrap_or_else(|| {
        eprintln!("unknown scenario {scenario}");
        std::process::exit(2);
    });
    report::reset(logging);
    match mode {
        Mode::Seed(s) => tape::start_random(s),
        Mode::Tape(t) => tape::start_replay(t),
    }
    kernel::reset(kernel::KCfg::default());
    alloc::begin_run();
    sched::set_active(true);
    let result = std::panic::catch_unwind(std::panic::AssertUnwindSafe(f));
    sched::set_active(false);
    if let Err(p) = result {
        record_panic(p);
    }
    for v in alloc::take_violations() {
        report::violation(v.class, v.detail);
    }
    alloc::end_run();
    kernel::reset(kernel::KCfg::default());
    let (violations, harness_errors, lines) = report::take();
    Outcome {
        violations,
        harness_errors,
        lines,
        tape: tape::take_record(),
        hash: report::trace_hash(),
        nontrivial: report::is_nontrivial(),
        draws: tape::draws(),
    }
}
