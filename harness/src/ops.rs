//! The operations under test: constructors for (nearly) every operation a10
//! exports, each with a normaliser for its output and an oracle that computes
//! the expected output from what the simulated kernel did for the submission.

use std::future::Future;
use std::net::SocketAddr;
use std::os::fd::AsRawFd;
use std::path::PathBuf;
use std::pin::Pin;
use std::sync::Arc;
use std::task::{Context, Poll};

use a10::io::{ReadBuf, ReadBufPool};
use a10::{AsyncFd, Extract, SubmissionQueue};

use crate::alloc;
use crate::exec::*;
use crate::kernel::{self, FD_BASE, OpRecord};
use crate::tape::{self, site};

/// Expected output of a submission, given the kernel's record of it and the
/// index of the completion that resolved it.
pub type Expect = Box<dyn Fn(&OpRecord, usize) -> Out + Send>;

pub struct Made {
    pub task: Box<dyn DynTask>,
    pub expect: Expect,
    pub name: &'static str,
}

pub fn fd_num(fd: &AsyncFd) -> (i32, bool) {
    match fd.as_fd() {
        Some(b) => (b.as_raw_fd(), false),
        None => {
            // Direct descriptors expose their index only through Debug.
            let s = format!("{fd:?}");
            let n = s
                .split("fd: ")
                .nth(1)
                .and_then(|r| r.split(',').next())
                .and_then(|n| n.trim().parse::<i32>().ok())
                .unwrap_or(-1);
            (n, true)
        }
    }
}

/// Canonical number for logs and outputs: regular descriptors relative to
/// FD_BASE.
pub fn canon_fd(n: i32, direct: bool) -> i32 {
    if direct || n < FD_BASE { n } else { n - FD_BASE }
}

struct FutTask<F: Future, M> {
    fut: Option<Pin<Box<F>>>,
    map: M,
}

impl<F, M> DynTask for FutTask<F, M>
where
    F: Future,
    M: FnMut(F::Output, &mut Vec<Produced>) -> Out,
{
    fn poll(&mut self, cx: &mut Context<'_>, produced: &mut Vec<Produced>) -> Poll<Option<Out>> {
        let fut = self.fut.as_mut().expect("task polled after drop");
        match alloc::a10(|| fut.as_mut().poll(cx)) {
            Poll::Ready(o) => Poll::Ready(Some(alloc::a10(|| (self.map)(o, produced)))),
            Poll::Pending => Poll::Pending,
        }
    }

    fn is_iter(&self) -> bool {
        false
    }
}

impl<F: Future, M> Drop for FutTask<F, M> {
    fn drop(&mut self) {
        alloc::a10(|| drop(self.fut.take()));
    }
}

unsafe impl<F: Future, M> Send for FutTask<F, M> {}

struct IterTask<I, P, M> {
    iter: Option<Pin<Box<I>>>,
    poll_next: P,
    map: M,
}

impl<I, T, P, M> DynTask for IterTask<I, P, M>
where
    P: FnMut(Pin<&mut I>, &mut Context<'_>) -> Poll<Option<T>>,
    M: FnMut(T, &mut Vec<Produced>) -> Out,
{
    fn poll(&mut self, cx: &mut Context<'_>, produced: &mut Vec<Produced>) -> Poll<Option<Out>> {
        let iter = self.iter.as_mut().expect("task polled after drop");
        match alloc::a10(|| (self.poll_next)(iter.as_mut(), cx)) {
            Poll::Ready(Some(o)) => Poll::Ready(Some(alloc::a10(|| (self.map)(o, produced)))),
            Poll::Ready(None) => Poll::Ready(None),
            Poll::Pending => Poll::Pending,
        }
    }

    fn is_iter(&self) -> bool {
        true
    }
}

impl<I, P, M> Drop for IterTask<I, P, M> {
    fn drop(&mut self) {
        alloc::a10(|| drop(self.iter.take()));
    }
}

unsafe impl<I, P, M> Send for IterTask<I, P, M> {}

fn fut<F, M>(f: F, map: M) -> Box<dyn DynTask>
where
    F: Future + 'static,
    M: FnMut(F::Output, &mut Vec<Produced>) -> Out + 'static,
{
    Box::new(FutTask {
        fut: Some(Box::pin(f)),
        map,
    })
}

/// A future on which a builder method is called *late*: after `at` polls, i.e.
/// possibly after the kernel has already answered. The library ignores builder
/// calls once the request has been submitted; what the kernel was asked for and
/// how its answer is wrapped must not drift apart.
struct LateTask<F, M> {
    fut: Option<F>,
    map: M,
    polls: u32,
    late: Option<(u32, fn(F) -> F)>,
}

impl<F, M> DynTask for LateTask<F, M>
where
    F: Future + Unpin,
    M: FnMut(F::Output, &mut Vec<Produced>) -> Out,
{
    fn poll(&mut self, cx: &mut Context<'_>, produced: &mut Vec<Produced>) -> Poll<Option<Out>> {
        if let Some((at, f)) = self.late {
            if self.polls == at {
                let fut = self.fut.take().expect("task polled after drop");
                crate::ev!("h late builder call after {at} poll(s)");
                crate::stats::inc(crate::stats::C::probe_late_builder_call);
                let op = kernel::cur_op();
                kernel::with(|k| k.late_builder_ops.push(op));
                self.fut = Some(alloc::a10(|| f(fut)));
            }
        }
        self.polls += 1;
        let fut = self.fut.as_mut().expect("task polled after drop");
        match alloc::a10(|| Pin::new(fut).poll(cx)) {
            Poll::Ready(o) => Poll::Ready(Some(alloc::a10(|| (self.map)(o, produced)))),
            Poll::Pending => Poll::Pending,
        }
    }

    fn is_iter(&self) -> bool {
        false
    }
}

impl<F, M> Drop for LateTask<F, M> {
    fn drop(&mut self) {
        alloc::a10(|| drop(self.fut.take()));
    }
}

unsafe impl<F, M> Send for LateTask<F, M> {}

fn fut_late<F, M>(f: F, map: M, late: Option<(u32, fn(F) -> F)>) -> Box<dyn DynTask>
where
    F: Future + Unpin + 'static,
    M: FnMut(F::Output, &mut Vec<Produced>) -> Out + 'static,
{
    Box::new(LateTask {
        fut: Some(f),
        map,
        polls: 0,
        late,
    })
}

fn iter<I, T, P, M>(i: I, poll_next: P, map: M) -> Box<dyn DynTask>
where
    I: 'static,
    T: 'static,
    P: FnMut(Pin<&mut I>, &mut Context<'_>) -> Poll<Option<T>> + 'static,
    M: FnMut(T, &mut Vec<Produced>) -> Out + 'static,
{
    Box::new(IterTask {
        iter: Some(Box::pin(i)),
        poll_next,
        map,
    })
}

/// What a `SignalInfo` read from `bytes` prints as.
fn siginfo_val(bytes: &[u8]) -> Val {
    if bytes.len() < 16 {
        return Val::Text("short siginfo".to_string());
    }
    let signo = i32::from_ne_bytes(bytes[0..4].try_into().unwrap());
    let pid = u32::from_ne_bytes(bytes[12..16].try_into().unwrap());
    // Same formatting as the harness side: Debug of `Signal` and the pid.
    Val::Text(format!("{:?}/{}", SignalDbg(signo), pid))
}

struct SignalDbg(i32);

impl std::fmt::Debug for SignalDbg {
    fn fmt(&self, f: &mut std::fmt::Formatter<'_>) -> std::fmt::Result {
        // a10's `Signal` is a transparent i32 new type with a Debug impl.
        let s: a10::process::Signal = unsafe { std::mem::transmute::<i32, a10::process::Signal>(self.0) };
        s.fmt(f)
    }
}

struct IterDropTask<I, P, M, D: FnMut(Pin<Box<I>>)> {
    iter: Option<Pin<Box<I>>>,
    poll_next: P,
    map: M,
    on_drop: D,
}

impl<I, T, P, M, D> DynTask for IterDropTask<I, P, M, D>
where
    P: FnMut(Pin<&mut I>, &mut Context<'_>) -> Poll<Option<T>>,
    M: FnMut(T, &mut Vec<Produced>) -> Out,
    D: FnMut(Pin<Box<I>>),
{
    fn poll(&mut self, cx: &mut Context<'_>, produced: &mut Vec<Produced>) -> Poll<Option<Out>> {
        let iter = self.iter.as_mut().expect("task polled after drop");
        match alloc::a10(|| (self.poll_next)(iter.as_mut(), cx)) {
            Poll::Ready(Some(o)) => Poll::Ready(Some(alloc::a10(|| (self.map)(o, produced)))),
            Poll::Ready(None) => Poll::Ready(None),
            Poll::Pending => Poll::Pending,
        }
    }

    fn is_iter(&self) -> bool {
        true
    }
}

impl<I, P, M, D: FnMut(Pin<Box<I>>)> Drop for IterDropTask<I, P, M, D> {
    fn drop(&mut self) {
        if let Some(it) = self.iter.take() {
            alloc::a10(|| (self.on_drop)(it));
        }
    }
}

unsafe impl<I, P, M, D: FnMut(Pin<Box<I>>)> Send for IterDropTask<I, P, M, D> {}

fn iter_with_drop<I, T, P, M, D>(i: I, poll_next: P, map: M, on_drop: D) -> Box<dyn DynTask>
where
    I: 'static,
    T: 'static,
    P: FnMut(Pin<&mut I>, &mut Context<'_>) -> Poll<Option<T>> + 'static,
    M: FnMut(T, &mut Vec<Produced>) -> Out + 'static,
    D: FnMut(Pin<Box<I>>) + 'static,
{
    Box::new(IterDropTask {
        iter: Some(Box::pin(i)),
        poll_next,
        map,
        on_drop,
    })
}

fn io_err<T>(r: std::io::Result<T>) -> Result<T, i32> {
    r.map_err(|e| err_code(&e))
}

/// The generic part of every oracle: an error completion surfaces as that
/// error (EINVAL is mapped to "unsupported" by a10).
pub fn expect_err(res: i32) -> Option<Out> {
    if res < 0 {
        let e = -res;
        Some(Err(if e == libc::EINVAL { KIND_UNSUPPORTED } else { e }))
    } else {
        None
    }
}

// ---- buffers that are stored inline (no heap block of their own) ---------
// a10 does not implement `Buf` for byte arrays (their address changes when the
// future moves). Should such an impl ever appear, the vectored write below
// uses it: autoref specialisation picks `ViaBuf` only if `[u8; 24]: Buf`.
struct Probe<T>(std::marker::PhantomData<T>);

trait Inline: Sized {
    fn make(tag: u8) -> Self;
}

impl Inline for [u8; 24] {
    fn make(tag: u8) -> Self {
        let mut a = [0u8; 24];
        for (i, b) in a.iter_mut().enumerate() {
            *b = tag.wrapping_add(i as u8);
        }
        a
    }
}

trait ViaBuf {
    fn vectored(&self, f: &'static AsyncFd, tag: u8) -> Option<Box<dyn DynTask>>;
}

impl<T: a10::io::Buf + Inline> ViaBuf for Probe<T> {
    fn vectored(&self, f: &'static AsyncFd, tag: u8) -> Option<Box<dyn DynTask>> {
        let fut_ = alloc::a10(|| f.write_vectored([T::make(tag), T::make(tag ^ 0x55)]));
        Some(fut(fut_, |o, _| io_err(o).map(|n| Val::N(n as u64))))
    }
}

trait ViaNone {
    fn vectored(&self, _f: &'static AsyncFd, _tag: u8) -> Option<Box<dyn DynTask>> {
        None
    }
}

impl<T> ViaNone for &Probe<T> {}

fn inline_vectored(f: &'static AsyncFd, tag: u8) -> Option<Box<dyn DynTask>> {
    (&Probe::<[u8; 24]>(std::marker::PhantomData)).vectored(f, tag)
}

fn exp(f: impl Fn(&OpRecord, usize, i32, u32) -> Val + Send + 'static) -> Expect {
    Box::new(move |rec, i| {
        let (res, flags) = rec.cqes[i];
        match expect_err(res) {
            Some(e) => e,
            None => Ok(f(rec, i, res, flags)),
        }
    })
}

/// Buffer with attributable initial contents.
pub fn new_vec(cap: usize, init: usize, tag: u8) -> Vec<u8> {
    alloc::res(|| {
        let mut v = Vec::with_capacity(cap);
        v.extend((0..init).map(|i| tag.wrapping_add(i as u8)));
        v
    })
}

pub fn payload(len: usize, tag: u8) -> Vec<u8> {
    alloc::res(|| (0..len).map(|i| tag.wrapping_mul(3).wrapping_add(i as u8)).collect())
}

/// Static data for `&'static [u8]` buffers.
pub static STATIC_DATA: [u8; 64] = {
    let mut a = [0u8; 64];
    let mut i = 0;
    while i < 64 {
        a[i] = 200 + (i as u8 % 50);
        i += 1;
    }
    a
};

/// Drop counters of the tracked buffers created in this run.
pub static TRACKED: std::sync::Mutex<Vec<Arc<std::sync::atomic::AtomicU32>>> = std::sync::Mutex::new(Vec::new());

/// A user-defined buffer type (the traits are implementable outside a10) that
/// counts its drops: it must be dropped exactly once, whatever happens to the
/// operation that owns it.
pub struct TrackedBuf {
    data: Vec<u8>,
    drops: Arc<std::sync::atomic::AtomicU32>,
}

impl TrackedBuf {
    pub fn new(data: Vec<u8>) -> TrackedBuf {
        let drops = alloc::harness(|| {
            let drops = Arc::new(std::sync::atomic::AtomicU32::new(0));
            TRACKED.lock().unwrap_or_else(|e| e.into_inner()).push(drops.clone());
            drops
        });
        TrackedBuf { data, drops }
    }
}

impl Drop for TrackedBuf {
    fn drop(&mut self) {
        self.drops.fetch_add(1, std::sync::atomic::Ordering::AcqRel);
    }
}

// SAFETY: the bytes live in a Vec that is only freed when the buffer is dropped.
unsafe impl a10::io::Buf for TrackedBuf {
    unsafe fn parts(&self) -> (*const u8, u32) {
        (self.data.as_ptr(), self.data.len() as u32)
    }
}

// SAFETY: as for Vec<u8>: only the spare capacity is handed out.
unsafe impl a10::io::BufMut for TrackedBuf {
    unsafe fn parts_mut(&mut self) -> (*mut u8, u32) {
        let s = self.data.spare_capacity_mut();
        (s.as_mut_ptr().cast(), s.len() as u32)
    }
    unsafe fn set_init(&mut self, n: usize) {
        unsafe { self.data.set_len(self.data.len() + n) };
    }
    fn spare_capacity(&self) -> u32 {
        (self.data.capacity() - self.data.len()) as u32
    }
}

/// Returns (created, dropped more than once, never dropped).
pub fn tracked_summary() -> (usize, usize, usize) {
    let t = TRACKED.lock().unwrap_or_else(|e| e.into_inner());
    let twice = t.iter().filter(|d| d.load(std::sync::atomic::Ordering::Acquire) > 1).count();
    let never = t.iter().filter(|d| d.load(std::sync::atomic::Ordering::Acquire) == 0).count();
    (t.len(), twice, never)
}

pub fn tracked_reset() {
    TRACKED.lock().unwrap_or_else(|e| e.into_inner()).clear();
}

/// Everything that exists in a run besides the kernel.
pub struct World {
    pub ring: Option<a10::Ring>,
    pub sq: SubmissionQueue,
    /// Descriptors owned by the harness. Boxed so tasks can borrow them for
    /// `'static` (the harness drops tasks before their descriptor, as the
    /// borrow checker would force safe code to).
    pub fds: Vec<Option<Box<AsyncFd>>>,
    pub pools: Vec<ReadBufPool>,
    pub direct_enabled: bool,
    /// A second ring (for `Ring::pollable`).
    pub other: Option<a10::Ring>,
    /// Signal notifiers (real signalfd, reads go to the simulated kernel).
    pub signals: Vec<Option<Box<a10::process::Signals>>>,
}

impl World {
    pub fn fd_ref(&self, idx: usize) -> &'static AsyncFd {
        let b: &AsyncFd = self.fds[idx].as_ref().expect("fd alive");
        // SAFETY: see `World::fds`.
        unsafe { &*(b as *const AsyncFd) }
    }

    pub fn live_fds(&self) -> Vec<usize> {
        (0..self.fds.len())
            .filter(|i| self.fds[*i].is_some())
            .collect()
    }

    pub fn add_fd(&mut self, fd: AsyncFd) -> usize {
        self.fds.push(Some(Box::new(fd)));
        self.fds.len() - 1
    }

    /// A new regular descriptor issued by the kernel to "the application".
    pub fn new_fd(&mut self) -> usize {
        let n = kernel::with(|k| k.issue_fd("harness", kernel::NO_OP));
        let fd = alloc::a10(|| unsafe { AsyncFd::from_raw_fd(n, self.sq.clone()) });
        self.add_fd(fd)
    }
}

// --------------------------------------------------------------- operations

#[derive(Copy, Clone, Debug, PartialEq, Eq)]
pub enum Kind {
    ReadVec,
    ReadAt,
    ReadPool,
    ReadVectored,
    WriteVec,
    WriteBox,
    WriteStatic,
    WriteString,
    WriteArc,
    WriteAt,
    WriteExtract,
    WriteVectored,
    Recv,
    RecvVectored,
    RecvFrom,
    RecvFromPool,
    Send,
    SendZc,
    SendTo,
    SendVectored,
    SendVectoredZc,
    Accept,
    Connect,
    Bind,
    Listen,
    Shutdown,
    LocalAddr,
    SockoptGet,
    SockoptSet,
    SyncAll,
    SyncData,
    Metadata,
    Advise,
    Allocate,
    Truncate,
    Splice,
    ToDirect,
    ToFile,
    // Queue operations.
    Open,
    OpenDirect,
    OpenExtract,
    Socket,
    SocketDirect,
    Pipe,
    PipeDirect,
    Mkdir,
    Unlink,
    Rename,
    Waitid,
    Madvise,
    // Iterators.
    MultishotAccept,
    MultishotRead,
    MultishotRecv,
    // Composite.
    WriteAll,
    ReadN,
    // More buffer types.
    WriteCow,
    WriteBoxStr,
    WriteArcStr,
    WriteStaticBuf,
    WriteLimited,
    WriteTracked,
    ReadTracked,
    ReadLimited,
    ReadVectoredTuple,
    WriteVectored8,
    RecvFromVectored,
    SendToVectored,
    OpenTemp,
    // Signals and polling another ring.
    ReceiveSignal,
    ReceiveSignals,
    SignalsToDirect,
    Pollable,
}

impl Kind {
    pub fn needs_fd(self) -> bool {
        !matches!(
            self,
            Kind::Open
                | Kind::OpenDirect
                | Kind::OpenExtract
                | Kind::Socket
                | Kind::SocketDirect
                | Kind::Pipe
                | Kind::PipeDirect
                | Kind::Mkdir
                | Kind::Unlink
                | Kind::Rename
                | Kind::Waitid
                | Kind::Madvise
                | Kind::OpenTemp
                | Kind::ReceiveSignal
                | Kind::ReceiveSignals
                | Kind::SignalsToDirect
                | Kind::Pollable
        )
    }
    pub fn needs_signals(self) -> bool {
        matches!(self, Kind::ReceiveSignal | Kind::ReceiveSignals | Kind::SignalsToDirect)
    }
    pub fn needs_other_ring(self) -> bool {
        matches!(self, Kind::Pollable)
    }
    pub fn needs_pool(self) -> bool {
        matches!(
            self,
            Kind::ReadPool | Kind::RecvFromPool | Kind::MultishotRead | Kind::MultishotRecv
        )
    }
    pub fn needs_direct_table(self) -> bool {
        matches!(
            self,
            Kind::OpenDirect | Kind::SocketDirect | Kind::PipeDirect | Kind::ToDirect | Kind::SignalsToDirect
        )
    }
    pub fn is_iter(self) -> bool {
        matches!(
            self,
            Kind::MultishotAccept
                | Kind::MultishotRead
                | Kind::MultishotRecv
                | Kind::ReceiveSignals
                | Kind::Pollable
        )
    }
}

pub const ALL_KINDS: &[Kind] = &[
    Kind::ReadVec,
    Kind::WriteVec,
    Kind::SyncAll,
    Kind::ReadAt,
    Kind::ReadPool,
    Kind::ReadVectored,
    Kind::WriteBox,
    Kind::WriteStatic,
    Kind::WriteString,
    Kind::WriteArc,
    Kind::WriteAt,
    Kind::WriteExtract,
    Kind::WriteVectored,
    Kind::Recv,
    Kind::RecvVectored,
    Kind::RecvFrom,
    Kind::RecvFromPool,
    Kind::Send,
    Kind::SendZc,
    Kind::SendTo,
    Kind::SendVectored,
    Kind::SendVectoredZc,
    Kind::Accept,
    Kind::Connect,
    Kind::Bind,
    Kind::Listen,
    Kind::Shutdown,
    Kind::LocalAddr,
    Kind::SockoptGet,
    Kind::SockoptSet,
    Kind::SyncData,
    Kind::Metadata,
    Kind::Advise,
    Kind::Allocate,
    Kind::Truncate,
    Kind::Splice,
    Kind::ToDirect,
    Kind::ToFile,
    Kind::Open,
    Kind::OpenDirect,
    Kind::OpenExtract,
    Kind::Socket,
    Kind::SocketDirect,
    Kind::Pipe,
    Kind::PipeDirect,
    Kind::Mkdir,
    Kind::Unlink,
    Kind::Rename,
    Kind::Waitid,
    Kind::Madvise,
    Kind::MultishotAccept,
    Kind::MultishotRead,
    Kind::MultishotRecv,
    Kind::WriteAll,
    Kind::ReadN,
    Kind::WriteCow,
    Kind::WriteBoxStr,
    Kind::WriteArcStr,
    Kind::WriteStaticBuf,
    Kind::WriteLimited,
    Kind::WriteTracked,
    Kind::ReadTracked,
    Kind::ReadLimited,
    Kind::ReadVectoredTuple,
    Kind::WriteVectored8,
    Kind::RecvFromVectored,
    Kind::SendToVectored,
    Kind::OpenTemp,
    Kind::ReceiveSignal,
    Kind::ReceiveSignals,
    Kind::SignalsToDirect,
    Kind::Pollable,
];

fn addr_string(bytes: &[u8]) -> String {
    // sockaddr_in written by the stub.
    if bytes.len() >= 8 {
        let port = u16::from_be_bytes([bytes[2], bytes[3]]);
        format!("{}.{}.{}.{}:{port}", bytes[4], bytes[5], bytes[6], bytes[7])
    } else {
        String::new()
    }
}

fn take_fd(fd: AsyncFd, produced: &mut Vec<Produced>) -> (i32, bool) {
    let (n, d) = fd_num(&fd);
    produced.push(Produced::Fd(fd));
    (canon_fd(n, d), d)
}

fn exp_fd(rec: &OpRecord, i: usize) -> (i32, bool) {
    // The i-th successful completion issued the i-th descriptor.
    let ok_before = rec.cqes[..i].iter().filter(|(r, _)| *r >= 0).count();
    let (n, d) = rec.fds_issued[ok_before];
    (canon_fd(n, d), d)
}

/// Static name of a kind (no allocation per operation).
pub fn kind_name(kind: Kind) -> &'static str {
    static NAMES: std::sync::OnceLock<Vec<(Kind, &'static str)>> = std::sync::OnceLock::new();
    let names = NAMES.get_or_init(|| {
        ALL_KINDS
            .iter()
            .map(|k| (*k, &*Box::leak(format!("{k:?}").into_boxed_str())))
            .collect()
    });
    names.iter().find(|(k, _)| *k == kind).map_or("?", |(_, n)| n)
}

/// Build operation `kind` on descriptor `fd` (index in the world).
#[allow(clippy::too_many_lines)]
pub fn make(w: &mut World, kind: Kind, fd: Option<usize>, pool: Option<usize>, tag: u8) -> Made {
    let sq = w.sq.clone();
    let f = fd.map(|i| w.fd_ref(i));
    let name: &'static str = kind_name(kind);
    let len = 1 + tape::choose(site::BUF, 48) as usize;
    let (task, expect): (Box<dyn DynTask>, Expect) = match kind {
        Kind::ReadVec | Kind::ReadAt => {
            let init = tape::choose(site::BUF, 4) as usize;
            let buf = new_vec(init + len, init, tag);
            let before = buf.clone();
            let fut_ = alloc::a10(|| {
                let r = f.unwrap().read(buf);
                if kind == Kind::ReadAt { r.from(1000 + u64::from(tag)) } else { r }
            });
            (
                fut(fut_, |o, _| io_err(o).map(Val::Bytes)),
                exp(move |rec, i, _, _| {
                    let mut v = before.clone();
                    v.extend_from_slice(&rec.wrote[i]);
                    Val::Bytes(v)
                }),
            )
        }
        Kind::ReadPool => {
            let p = &w.pools[pool.unwrap()];
            let buf = alloc::a10(|| p.get());
            let fut_ = alloc::a10(|| f.unwrap().read(buf));
            (
                fut(fut_, |o, prod| {
                    io_err(o).map(|b| {
                        let v = b.as_slice().to_vec();
                        prod.push(Produced::ReadBuf(b));
                        Val::Bytes(v)
                    })
                }),
                exp(|rec, i, _, _| Val::Bytes(rec.wrote[i].clone())),
            )
        }
        Kind::ReadVectored => {
            let a = new_vec(len, 0, tag);
            let b = new_vec(1 + len / 2, 0, tag);
            let (ca, cb) = (a.capacity(), b.capacity());
            let fut_ = alloc::a10(|| f.unwrap().read_vectored([a, b]));
            (
                fut(fut_, |o, _| io_err(o).map(|[a, b]| Val::BytesMulti(vec![a, b]))),
                exp(move |rec, i, _, _| {
                    let d = &rec.wrote[i];
                    let na = d.len().min(ca);
                    let nb = (d.len() - na).min(cb);
                    Val::BytesMulti(vec![d[..na].to_vec(), d[na..na + nb].to_vec()])
                }),
            )
        }
        Kind::WriteVec | Kind::WriteAt => {
            let buf = payload(len, tag);
            let fut_ = alloc::a10(|| {
                let w_ = f.unwrap().write(buf);
                if kind == Kind::WriteAt { w_.at(77 + u64::from(tag)) } else { w_ }
            });
            (
                fut(fut_, |o, _| io_err(o).map(|n| Val::N(n as u64))),
                exp(|_, _, res, _| Val::N(res as u64)),
            )
        }
        Kind::WriteBox => {
            let buf: Box<[u8]> = alloc::res(|| payload(len, tag).into_boxed_slice());
            let fut_ = alloc::a10(|| f.unwrap().write(buf));
            (
                fut(fut_, |o, _| io_err(o).map(|n| Val::N(n as u64))),
                exp(|_, _, res, _| Val::N(res as u64)),
            )
        }
        Kind::WriteStatic => {
            let buf: &'static [u8] = &STATIC_DATA[..len.min(64)];
            let fut_ = alloc::a10(|| f.unwrap().write(buf));
            (
                fut(fut_, |o, _| io_err(o).map(|n| Val::N(n as u64))),
                exp(|_, _, res, _| Val::N(res as u64)),
            )
        }
        Kind::WriteString => {
            let buf: String = alloc::res(|| "s".repeat(len));
            let fut_ = alloc::a10(|| f.unwrap().write(buf));
            (
                fut(fut_, |o, _| io_err(o).map(|n| Val::N(n as u64))),
                exp(|_, _, res, _| Val::N(res as u64)),
            )
        }
        Kind::WriteArc => {
            let buf: Arc<[u8]> = alloc::res(|| Arc::from(payload(len, tag)));
            let fut_ = alloc::a10(|| f.unwrap().write(buf));
            (
                fut(fut_, |o, _| io_err(o).map(|n| Val::N(n as u64))),
                exp(|_, _, res, _| Val::N(res as u64)),
            )
        }
        Kind::WriteExtract => {
            let buf = payload(len, tag);
            let copy = buf.clone();
            let fut_ = alloc::a10(|| f.unwrap().write(buf).extract());
            (
                fut(fut_, |o, _| {
                    io_err(o).map(|(b, n)| Val::BytesFlags(vec![b], n as i32))
                }),
                exp(move |_, _, res, _| Val::BytesFlags(vec![copy.clone()], res)),
            )
        }
        Kind::WriteVectored if tape::chance(site::BUF, 1, 4) && inline_vectored(f.unwrap(), tag).is_some() => {
            // Only reachable if byte arrays implement `Buf` (they do not on the
            // tree as pinned): buffers that live inline in the future.
            (
                inline_vectored(f.unwrap(), tag).unwrap(),
                exp(|_, _, res, _| Val::N(res as u64)),
            )
        }
        Kind::WriteVectored => {
            let a = payload(len, tag);
            let b: Box<[u8]> = alloc::res(|| payload(1 + len / 3, tag ^ 0x55).into_boxed_slice());
            let fut_ = alloc::a10(|| f.unwrap().write_vectored((a, b)));
            (
                fut(fut_, |o, _| io_err(o).map(|n| Val::N(n as u64))),
                exp(|_, _, res, _| Val::N(res as u64)),
            )
        }
        Kind::Recv => {
            let buf = new_vec(len, 0, tag);
            let fut_ = alloc::a10(|| f.unwrap().recv(buf).flags(a10::net::RecvFlag::PEEK));
            (
                fut(fut_, |o, _| io_err(o).map(Val::Bytes)),
                exp(|rec, i, _, _| Val::Bytes(rec.wrote[i].clone())),
            )
        }
        Kind::RecvVectored => {
            let a = new_vec(len, 0, tag);
            let b = new_vec(4, 0, tag);
            let ca = a.capacity();
            let fut_ = alloc::a10(|| f.unwrap().recv_vectored((a, b)));
            (
                fut(fut_, |o, _| {
                    io_err(o).map(|((a, b), fl)| Val::BytesFlags(vec![a, b], fl))
                }),
                exp(move |rec, i, _, _| {
                    let d = &rec.wrote[i];
                    let na = d.len().min(ca);
                    Val::BytesFlags(
                        vec![d[..na].to_vec(), d[na..].to_vec()],
                        (rec.kid as i32 & 1) * libc::MSG_TRUNC,
                    )
                }),
            )
        }
        Kind::RecvFrom => {
            let buf = new_vec(len, 0, tag);
            let fut_ = alloc::a10(|| f.unwrap().recv_from::<_, SocketAddr>(buf));
            (
                fut(fut_, |o, _| {
                    io_err(o).map(|(b, a, fl)| Val::BytesAddr(vec![b], a.to_string(), fl))
                }),
                exp(|rec, i, _, _| {
                    Val::BytesAddr(
                        vec![rec.wrote[i].clone()],
                        addr_string(&rec.addr_written),
                        (rec.kid as i32 & 1) * libc::MSG_TRUNC,
                    )
                }),
            )
        }
        Kind::RecvFromPool => {
            let p = &w.pools[pool.unwrap()];
            let buf = alloc::a10(|| p.get());
            let fut_ = alloc::a10(|| f.unwrap().recv_from::<_, SocketAddr>(buf));
            (
                fut(fut_, |o, prod| {
                    io_err(o).map(|(b, a, fl)| {
                        let v = b.as_slice().to_vec();
                        prod.push(Produced::ReadBuf(b));
                        Val::BytesAddr(vec![v], a.to_string(), fl)
                    })
                }),
                exp(|rec, i, _, _| {
                    Val::BytesAddr(
                        vec![rec.wrote[i].clone()],
                        addr_string(&rec.addr_written),
                        (rec.kid as i32 & 1) * libc::MSG_TRUNC,
                    )
                }),
            )
        }
        Kind::Send | Kind::SendZc => {
            let buf = payload(len, tag);
            let fut_ = alloc::a10(|| {
                let s = f.unwrap().send(buf).flags(a10::net::SendFlag::MORE);
                if kind == Kind::SendZc { s.zc() } else { s }
            });
            (
                fut(fut_, |o, _| io_err(o).map(|n| Val::N(n as u64))),
                // A two-step operation reports the value of its first completion.
                Box::new(|rec, _| {
                    let (res, _) = rec.cqes[0];
                    match expect_err(res) {
                        Some(e) => e,
                        None => Ok(Val::N(res as u64)),
                    }
                }),
            )
        }
        Kind::SendTo => {
            let buf = payload(len, tag);
            let addr: SocketAddr = ([127, 0, 0, 1], 9000 + u16::from(tag)).into();
            let fut_ = alloc::a10(|| f.unwrap().send_to(buf, addr));
            (
                fut(fut_, |o, _| io_err(o).map(|n| Val::N(n as u64))),
                exp(|_, _, res, _| Val::N(res as u64)),
            )
        }
        Kind::SendVectored | Kind::SendVectoredZc => {
            let a = payload(len, tag);
            let b = payload(3, tag ^ 0x33);
            let fut_ = alloc::a10(|| {
                let s = f.unwrap().send_vectored([a, b]);
                if kind == Kind::SendVectoredZc { s.zc() } else { s }
            });
            (
                fut(fut_, |o, _| io_err(o).map(|n| Val::N(n as u64))),
                Box::new(|rec, _| {
                    let (res, _) = rec.cqes[0];
                    match expect_err(res) {
                        Some(e) => e,
                        None => Ok(Val::N(res as u64)),
                    }
                }),
            )
        }
        Kind::Accept => {
            let fut_ = alloc::a10(|| f.unwrap().accept::<SocketAddr>());
            (
                fut(fut_, |o, prod| {
                    io_err(o).map(|(fd, a)| {
                        let (n, d) = take_fd(fd, prod);
                        Val::FdAddr(n, d, a.to_string())
                    })
                }),
                exp(|rec, i, _, _| {
                    let (n, d) = exp_fd(rec, i);
                    Val::FdAddr(n, d, addr_string(&rec.addr_written))
                }),
            )
        }
        Kind::Connect => {
            let addr: SocketAddr = ([127, 0, 0, 1], 7000 + u16::from(tag)).into();
            let fut_ = alloc::a10(|| f.unwrap().connect(addr));
            (
                fut(fut_, |o, _| io_err(o).map(|()| Val::Unit)),
                exp(|_, _, _, _| Val::Unit),
            )
        }
        Kind::Bind => {
            let addr: SocketAddr = ([127, 0, 0, 1], 6000 + u16::from(tag)).into();
            let fut_ = alloc::a10(|| f.unwrap().bind(addr));
            (
                fut(fut_, |o, _| io_err(o).map(|()| Val::Unit)),
                exp(|_, _, _, _| Val::Unit),
            )
        }
        Kind::Listen => {
            let fut_ = alloc::a10(|| f.unwrap().listen(u32::from(tag)));
            (
                fut(fut_, |o, _| io_err(o).map(|()| Val::Unit)),
                exp(|_, _, _, _| Val::Unit),
            )
        }
        Kind::Shutdown => {
            let fut_ = alloc::a10(|| f.unwrap().shutdown(std::net::Shutdown::Write));
            (
                fut(fut_, |o, _| io_err(o).map(|()| Val::Unit)),
                exp(|_, _, _, _| Val::Unit),
            )
        }
        Kind::LocalAddr => {
            let fut_ = alloc::a10(|| f.unwrap().local_addr::<SocketAddr>());
            (
                fut(fut_, |o, _| io_err(o).map(|a| Val::Addr(a.to_string()))),
                exp(|rec, _, _, _| Val::Addr(addr_string(&rec.addr_written))),
            )
        }
        Kind::SockoptGet => {
            let fut_ = alloc::a10(|| f.unwrap().socket_option::<a10::net::option::KeepAlive>());
            (
                fut(fut_, |o, _| io_err(o).map(Val::Bool)),
                exp(|_, _, _, _| Val::Bool(true)),
            )
        }
        Kind::SockoptSet => {
            let fut_ =
                alloc::a10(|| f.unwrap().set_socket_option::<a10::net::option::KeepAlive>(true));
            (
                fut(fut_, |o, _| io_err(o).map(|()| Val::Unit)),
                exp(|_, _, _, _| Val::Unit),
            )
        }
        Kind::SyncAll | Kind::SyncData => {
            let fut_ = alloc::a10(|| {
                if kind == Kind::SyncAll { f.unwrap().sync_all() } else { f.unwrap().sync_data() }
            });
            (
                fut(fut_, |o, _| io_err(o).map(|()| Val::Unit)),
                exp(|_, _, _, _| Val::Unit),
            )
        }
        Kind::Metadata => {
            let fut_ = alloc::a10(|| f.unwrap().metadata());
            (
                fut(fut_, |o, _| {
                    io_err(o).map(|m| {
                        let secs = |t: std::time::SystemTime| {
                            t.duration_since(std::time::UNIX_EPOCH).map_or(0, |d| d.as_secs() * 1000 + u64::from(d.subsec_nanos()))
                        };
                        Val::Text(format!(
                            "len={} blk={} file={} dir={} accessed={} created={} modified={}",
                            m.len(),
                            m.block_size(),
                            m.is_file(),
                            m.is_dir(),
                            secs(m.accessed()),
                            secs(m.created()),
                            secs(m.modified())
                        ))
                    })
                }),
                exp(|rec, _, _, _| {
                    let k = u64::from(rec.kid);
                    Val::Text(format!(
                        "len={} blk=4096 file=true dir=false accessed={} created={} modified={}",
                        1000 + k,
                        (1_000_000 + k) * 1000 + 7 + 64,
                        (2_000_000 + k) * 1000 + 7 + 80,
                        (4_000_000 + k) * 1000 + 7 + 112
                    ))
                }),
            )
        }
        Kind::Advise => {
            let fut_ = alloc::a10(|| {
                f.unwrap()
                    .advise(u64::from(tag), 10, a10::fs::AdviseFlag::SEQUENTIAL)
            });
            (
                fut(fut_, |o, _| io_err(o).map(|()| Val::Unit)),
                exp(|_, _, _, _| Val::Unit),
            )
        }
        Kind::Allocate => {
            let fut_ = alloc::a10(|| f.unwrap().allocate(u64::from(tag), 4096));
            (
                fut(fut_, |o, _| io_err(o).map(|()| Val::Unit)),
                exp(|_, _, _, _| Val::Unit),
            )
        }
        Kind::Truncate => {
            let fut_ = alloc::a10(|| f.unwrap().truncate(u64::from(tag)));
            (
                fut(fut_, |o, _| io_err(o).map(|()| Val::Unit)),
                exp(|_, _, _, _| Val::Unit),
            )
        }
        Kind::Splice => {
            let target = unsafe { std::os::fd::BorrowedFd::borrow_raw(1_000_000 + i32::from(tag)) };
            let fut_ = alloc::a10(|| f.unwrap().splice_to(target, len as u32));
            (
                fut(fut_, |o, _| io_err(o).map(|n| Val::N(n as u64))),
                exp(|_, _, res, _| Val::N(res as u64)),
            )
        }
        Kind::ToDirect => {
            let fut_ = alloc::a10(|| f.unwrap().to_direct_descriptor());
            (
                fut(fut_, |o, prod| {
                    io_err(o).map(|fd| {
                        let (n, d) = take_fd(fd, prod);
                        Val::Fd(n, d)
                    })
                }),
                exp(|rec, i, _, _| {
                    let (n, d) = exp_fd(rec, i);
                    Val::Fd(n, d)
                }),
            )
        }
        Kind::ToFile => {
            let fut_ = alloc::a10(|| f.unwrap().to_file_descriptor());
            (
                fut(fut_, |o, prod| {
                    io_err(o).map(|fd| {
                        let (n, d) = take_fd(fd, prod);
                        Val::Fd(n, d)
                    })
                }),
                exp(|rec, i, _, _| {
                    let (n, d) = exp_fd(rec, i);
                    Val::Fd(n, d)
                }),
            )
        }
        Kind::Open | Kind::OpenDirect => {
            let path = alloc::res(|| PathBuf::from(format!("/sim/file{tag}")));
            let fut_ = alloc::a10(|| {
                let o = a10::fs::OpenOptions::new().read();
                let o = if kind == Kind::OpenDirect { o.kind(a10::fd::Kind::Direct) } else { o };
                o.open(sq, path)
            });
            (
                fut(fut_, |o, prod| {
                    io_err(o).map(|fd| {
                        let (n, d) = take_fd(fd, prod);
                        Val::Fd(n, d)
                    })
                }),
                exp(|rec, i, _, _| {
                    let (n, d) = exp_fd(rec, i);
                    Val::Fd(n, d)
                }),
            )
        }
        Kind::OpenExtract => {
            let p = format!("/sim/extract{tag}");
            let path = alloc::res(|| PathBuf::from(&p));
            let fut_ = alloc::a10(|| a10::fs::open_file(sq, path).extract());
            (
                fut(fut_, |o, prod| {
                    io_err(o).map(|(fd, path)| {
                        let (n, d) = take_fd(fd, prod);
                        Val::FdAddr(n, d, path.display().to_string())
                    })
                }),
                exp(move |rec, i, _, _| {
                    let (n, d) = exp_fd(rec, i);
                    Val::FdAddr(n, d, p.clone())
                }),
            )
        }
        Kind::Socket | Kind::SocketDirect => {
            let fut_ = alloc::a10(|| {
                let s = a10::net::socket(
                    sq,
                    a10::net::Domain::IPV4,
                    a10::net::Type::STREAM,
                    None,
                );
                if kind == Kind::SocketDirect { s.kind(a10::fd::Kind::Direct) } else { s }
            });
            // Now and then the other kind is asked for when it is too late.
            let late: Option<(u32, fn(a10::net::Socket) -> a10::net::Socket)> =
                if w.direct_enabled && tape::chance(site::OPKIND, 1, 4) {
                    let at = 1 + tape::choose(site::OPKIND, 2);
                    Some(if kind == Kind::SocketDirect {
                        (at, |s| s.kind(a10::fd::Kind::File))
                    } else {
                        (at, |s| s.kind(a10::fd::Kind::Direct))
                    })
                } else {
                    None
                };
            (
                fut_late(
                    fut_,
                    |o, prod| {
                        io_err(o).map(|fd| {
                            let (n, d) = take_fd(fd, prod);
                            Val::Fd(n, d)
                        })
                    },
                    late,
                ),
                exp(|rec, i, _, _| {
                    let (n, d) = exp_fd(rec, i);
                    Val::Fd(n, d)
                }),
            )
        }
        Kind::Pipe | Kind::PipeDirect => {
            let fut_ = alloc::a10(|| {
                let p = a10::pipe::pipe(sq);
                if kind == Kind::PipeDirect { p.kind(a10::fd::Kind::Direct) } else { p }
            });
            let late: Option<(u32, fn(a10::pipe::Pipe) -> a10::pipe::Pipe)> =
                if w.direct_enabled && tape::chance(site::OPKIND, 1, 4) {
                    let at = 1 + tape::choose(site::OPKIND, 2);
                    Some(if kind == Kind::PipeDirect {
                        (at, |p| p.kind(a10::fd::Kind::File))
                    } else {
                        (at, |p| p.kind(a10::fd::Kind::Direct))
                    })
                } else {
                    None
                };
            (
                fut_late(
                    fut_,
                    |o, prod| {
                        io_err(o).map(|[r, w_]| {
                            let a = take_fd(r, prod);
                            let b = take_fd(w_, prod);
                            Val::Fds(vec![a, b])
                        })
                    },
                    late,
                ),
                exp(|rec, _, _, _| {
                    Val::Fds(
                        rec.fds_issued
                            .iter()
                            .map(|(n, d)| (canon_fd(*n, *d), *d))
                            .collect(),
                    )
                }),
            )
        }
        Kind::Mkdir => {
            let path = alloc::res(|| PathBuf::from(format!("/sim/dir{tag}")));
            let fut_ = alloc::a10(|| a10::fs::create_dir(sq, path));
            (
                fut(fut_, |o, _| io_err(o).map(|()| Val::Unit)),
                exp(|_, _, _, _| Val::Unit),
            )
        }
        Kind::Unlink => {
            let p = format!("/sim/gone{tag}");
            let path = alloc::res(|| PathBuf::from(&p));
            let fut_ = alloc::a10(|| a10::fs::remove_file(sq, path).extract());
            (
                fut(fut_, |o, _| io_err(o).map(|p| Val::Text(p.display().to_string()))),
                exp(move |_, _, _, _| Val::Text(p.clone())),
            )
        }
        Kind::Rename => {
            let from = alloc::res(|| PathBuf::from(format!("/sim/from{tag}")));
            let to = alloc::res(|| PathBuf::from(format!("/sim/to{tag}")));
            let fut_ = alloc::a10(|| a10::fs::rename(sq, from, to));
            (
                fut(fut_, |o, _| io_err(o).map(|()| Val::Unit)),
                exp(|_, _, _, _| Val::Unit),
            )
        }
        Kind::Waitid => {
            let fut_ = alloc::a10(|| {
                a10::process::wait(sq, a10::process::WaitOn::Process(4000 + u32::from(tag)))
            });
            (
                fut(fut_, |o, _| io_err(o).map(|i| Val::Wait(i.pid()))),
                exp(|rec, _, _, _| Val::Wait(4000 + rec.kid as i32)),
            )
        }
        Kind::Madvise => {
            let fut_ = alloc::a10(|| {
                a10::mem::advise(
                    sq,
                    std::ptr::without_provenance_mut(0x10000),
                    4096,
                    a10::mem::AdviseFlag::NORMAL,
                )
            });
            (
                fut(fut_, |o, _| io_err(o).map(|()| Val::Unit)),
                exp(|_, _, _, _| Val::Unit),
            )
        }
        Kind::MultishotAccept => {
            let it = alloc::a10(|| f.unwrap().multishot_accept());
            (
                iter(
                    it,
                    |i, cx| i.poll_next(cx),
                    |o, prod| {
                        io_err(o).map(|fd| {
                            let (n, d) = take_fd(fd, prod);
                            Val::Fd(n, d)
                        })
                    },
                ),
                exp(|rec, i, _, _| {
                    let (n, d) = exp_fd(rec, i);
                    Val::Fd(n, d)
                }),
            )
        }
        Kind::MultishotRead => {
            let p = w.pools[pool.unwrap()].clone();
            let it = alloc::a10(|| f.unwrap().multishot_read(p));
            (
                iter(
                    it,
                    |i, cx| i.poll_next(cx),
                    |o, prod| {
                        io_err(o).map(|b| {
                            let v = b.as_slice().to_vec();
                            prod.push(Produced::ReadBuf(b));
                            Val::Bytes(v)
                        })
                    },
                ),
                exp(|rec, i, _, _| Val::Bytes(rec.wrote[i].clone())),
            )
        }
        Kind::MultishotRecv => {
            let p = w.pools[pool.unwrap()].clone();
            let it = alloc::a10(|| f.unwrap().multishot_recv(p));
            (
                iter(
                    it,
                    |i, cx| i.poll_next(cx),
                    |o, prod| {
                        io_err(o).map(|b| {
                            let v = b.as_slice().to_vec();
                            prod.push(Produced::ReadBuf(b));
                            Val::Bytes(v)
                        })
                    },
                ),
                exp(|rec, i, _, _| Val::Bytes(rec.wrote[i].clone())),
            )
        }
        Kind::WriteCow => {
            let buf: std::borrow::Cow<'static, [u8]> = alloc::res(|| std::borrow::Cow::Owned(payload(len, tag)));
            let fut_ = alloc::a10(|| f.unwrap().write(buf));
            (fut(fut_, |o, _| io_err(o).map(|n| Val::N(n as u64))), exp(|_, _, res, _| Val::N(res as u64)))
        }
        Kind::WriteBoxStr => {
            let buf: Box<str> = alloc::res(|| "b".repeat(len).into_boxed_str());
            let fut_ = alloc::a10(|| f.unwrap().write(buf));
            (fut(fut_, |o, _| io_err(o).map(|n| Val::N(n as u64))), exp(|_, _, res, _| Val::N(res as u64)))
        }
        Kind::WriteArcStr => {
            let buf: Arc<str> = alloc::res(|| Arc::from("a".repeat(len)));
            let fut_ = alloc::a10(|| f.unwrap().write(buf));
            (fut(fut_, |o, _| io_err(o).map(|n| Val::N(n as u64))), exp(|_, _, res, _| Val::N(res as u64)))
        }
        Kind::WriteStaticBuf => {
            let buf = a10::io::StaticBuf::from(&STATIC_DATA[..len.min(64)]);
            let fut_ = alloc::a10(|| f.unwrap().write(buf));
            (fut(fut_, |o, _| io_err(o).map(|n| Val::N(n as u64))), exp(|_, _, res, _| Val::N(res as u64)))
        }
        Kind::WriteLimited => {
            use a10::io::Buf;
            let lim = 1 + tape::choose(site::BUF, len as u32) as usize;
            let buf = payload(len, tag);
            let want: Vec<u8> = buf[..lim].to_vec();
            let fut_ = alloc::a10(|| f.unwrap().write(buf.limit(lim)).extract());
            (
                fut(fut_, |o, _| io_err(o).map(|(b, n)| Val::BytesFlags(vec![b.into_inner()], n as i32))),
                exp(move |rec, _, res, _| {
                    if rec.described != want.len() || rec.taken != want[..res as usize] {
                        return Val::Text(format!("kernel was handed {} bytes, limit is {}", rec.described, want.len()));
                    }
                    let mut full = want.clone();
                    full.extend((want.len()..len).map(|i| tag.wrapping_mul(3).wrapping_add(i as u8)));
                    Val::BytesFlags(vec![full], res)
                }),
            )
        }
        Kind::WriteTracked => {
            let buf = alloc::res(|| TrackedBuf::new(payload(len, tag)));
            let fut_ = alloc::a10(|| f.unwrap().write(buf));
            (fut(fut_, |o, _| io_err(o).map(|n| Val::N(n as u64))), exp(|_, _, res, _| Val::N(res as u64)))
        }
        Kind::ReadTracked => {
            let buf = alloc::res(|| TrackedBuf::new(new_vec(len, 0, tag)));
            let fut_ = alloc::a10(|| f.unwrap().read(buf));
            (
                fut(fut_, |o, _| io_err(o).map(|b| Val::Bytes(b.data.clone()))),
                exp(|rec, i, _, _| Val::Bytes(rec.wrote[i].clone())),
            )
        }
        Kind::ReadLimited => {
            use a10::io::BufMut;
            // Limits below, at and above the buffer's spare capacity (a limit
            // never enlarges what the kernel may write).
            let lim = match tape::choose(site::BUF, 5) {
                0 => len + 1 + tape::choose(site::BUF, 64) as usize,
                1 => len,
                2 => usize::MAX,
                _ => 1 + tape::choose(site::BUF, len as u32) as usize,
            };
            let buf = new_vec(len, 0, tag);
            let fut_ = alloc::a10(|| f.unwrap().read(buf.limit(lim)));
            let lim = lim.min(len);
            (
                fut(fut_, |o, _| io_err(o).map(|b| Val::Bytes(b.into_inner()))),
                exp(move |rec, i, _, _| {
                    if rec.described != lim {
                        return Val::Text(format!("read of {} bytes requested, limit is {lim}", rec.described));
                    }
                    Val::Bytes(rec.wrote[i].clone())
                }),
            )
        }
        Kind::ReadVectoredTuple => {
            let a = new_vec(1 + len / 3, 0, tag);
            let b = new_vec(2, 0, tag);
            let c = new_vec(len, 0, tag);
            let caps = [a.capacity(), b.capacity(), c.capacity()];
            let fut_ = alloc::a10(|| f.unwrap().read_vectored((a, b, c)));
            (
                fut(fut_, |o, _| io_err(o).map(|(a, b, c)| Val::BytesMulti(vec![a, b, c]))),
                exp(move |rec, i, _, _| {
                    let d = &rec.wrote[i];
                    let mut off = 0;
                    let mut out = Vec::new();
                    for cap in caps {
                        let take = cap.min(d.len() - off);
                        out.push(d[off..off + take].to_vec());
                        off += take;
                    }
                    Val::BytesMulti(out)
                }),
            )
        }
        Kind::WriteVectored8 => {
            let bufs: [Vec<u8>; 8] = std::array::from_fn(|i| payload(if i % 3 == 1 { 0 } else { 1 + (len + i) % 7 }, tag.wrapping_add(i as u8)));
            let fut_ = alloc::a10(|| f.unwrap().write_vectored(bufs));
            (fut(fut_, |o, _| io_err(o).map(|n| Val::N(n as u64))), exp(|_, _, res, _| Val::N(res as u64)))
        }
        Kind::RecvFromVectored => {
            let a = new_vec(len, 0, tag);
            let b = new_vec(5, 0, tag);
            let ca = a.capacity();
            let fut_ = alloc::a10(|| f.unwrap().recv_from_vectored::<_, SocketAddr, 2>([a, b]));
            (
                fut(fut_, |o, _| io_err(o).map(|([a, b], addr, fl)| Val::BytesAddr(vec![a, b], addr.to_string(), fl))),
                exp(move |rec, i, _, _| {
                    let d = &rec.wrote[i];
                    let na = d.len().min(ca);
                    Val::BytesAddr(
                        vec![d[..na].to_vec(), d[na..].to_vec()],
                        addr_string(&rec.addr_written),
                        (rec.kid as i32 & 1) * libc::MSG_TRUNC,
                    )
                }),
            )
        }
        Kind::SendToVectored => {
            let a = payload(len, tag);
            let b = payload(2, tag ^ 0x11);
            let addr: SocketAddr = ([127, 0, 0, 1], 9100 + u16::from(tag)).into();
            let fut_ = alloc::a10(|| f.unwrap().send_to_vectored((a, b), addr));
            (fut(fut_, |o, _| io_err(o).map(|n| Val::N(n as u64))), exp(|_, _, res, _| Val::N(res as u64)))
        }
        Kind::OpenTemp => {
            let path = alloc::res(|| PathBuf::from(format!("/sim/tmpdir{tag}")));
            let fut_ = alloc::a10(|| a10::fs::OpenOptions::new().write().open_temp_file(sq, path));
            (
                fut(fut_, |o, prod| {
                    io_err(o).map(|fd| {
                        let (n, d) = take_fd(fd, prod);
                        Val::Fd(n, d)
                    })
                }),
                exp(|rec, i, _, _| {
                    let (n, d) = exp_fd(rec, i);
                    Val::Fd(n, d)
                }),
            )
        }
        Kind::ReceiveSignal => {
            let sig: &'static a10::process::Signals = {
                let b: &a10::process::Signals = w.signals[pool.unwrap()].as_ref().expect("signals alive");
                // SAFETY: as for descriptors: dropped only after its operations.
                unsafe { &*(b as *const a10::process::Signals) }
            };
            let fut_ = alloc::a10(|| sig.receive());
            (
                fut(fut_, |o, _| io_err(o).map(|i| Val::Text(format!("{:?}/{}", i.signal(), i.pid())))),
                exp(|rec, i, _, _| siginfo_val(&rec.wrote[i])),
            )
        }
        Kind::ReceiveSignals => {
            let sig = *w.signals[pool.unwrap()].take().expect("signals alive");
            let it = alloc::a10(|| sig.receive_signals());
            // Sometimes the notifier is taken back out of the iterator when it
            // is dropped (hand written drop path).
            let into_inner = tape::choose(site::BUF, 2) == 1;
            (
                iter_with_drop(
                    it,
                    |i, cx| i.poll_next(cx),
                    |o, _| io_err(o).map(|i| Val::Text(format!("{:?}/{}", i.signal(), i.pid()))),
                    move |it| {
                        if into_inner {
                            let it = unsafe { *Pin::into_inner_unchecked(it) };
                            let signals = it.into_inner();
                            drop(signals);
                        } else {
                            drop(it);
                        }
                    },
                ),
                exp(|rec, i, _, _| siginfo_val(&rec.wrote[i])),
            )
        }
        Kind::SignalsToDirect => {
            let sig = *w.signals[pool.unwrap()].take().expect("signals alive");
            let fut_ = alloc::a10(|| sig.to_direct_descriptor());
            (
                fut(fut_, |o, prod| {
                    io_err(o).map(|s| {
                        prod.push(Produced::Signals(s));
                        Val::Unit
                    })
                }),
                exp(|_, _, _, _| Val::Unit),
            )
        }
        Kind::Pollable => {
            let other = w.other.as_ref().expect("other ring");
            let it = alloc::a10(|| other.pollable(sq));
            (
                iter(it, |i, cx| i.poll_next(cx), |o, _| io_err(o).map(|()| Val::Unit)),
                exp(|_, _, _, _| Val::Unit),
            )
        }
        Kind::WriteAll => {
            let buf = payload(len, tag);
            let fut_ = alloc::a10(|| f.unwrap().write_all(buf));
            (
                fut(fut_, |o, _| io_err(o).map(|()| Val::Unit)),
                // Composite operations are judged by the stream oracle, not here.
                Box::new(|_, _| Ok(Val::Unit)),
            )
        }
        Kind::ReadN => {
            let buf = new_vec(len + 8, 0, tag);
            let n = 1 + tape::choose(site::BUF, len as u32) as usize;
            let fut_ = alloc::a10(|| f.unwrap().read_n(buf, n));
            (
                fut(fut_, |o, _| io_err(o).map(Val::Bytes)),
                Box::new(|_, _| Ok(Val::Unit)),
            )
        }
    };
    Made { task, expect, name }
}

/// I/O with a `ReadBuf` that already owns a pool buffer: a second read appends
/// to it (like a `Vec<u8>`), a write sends its contents.
pub fn make_buf_io(w: &World, fd: usize, buf: ReadBuf, model: Vec<u8>, second_read: bool) -> Made {
    let f = w.fd_ref(fd);
    if second_read {
        let cap = buf.capacity();
        let fut_ = alloc::a10(|| f.read(buf));
        Made {
            task: fut(fut_, |o, prod| {
                io_err(o).map(|b| {
                    let v = b.as_slice().to_vec();
                    prod.push(Produced::ReadBuf(b));
                    Val::Bytes(v)
                })
            }),
            expect: exp(move |rec, i, _, _| {
                let mut v = model.clone();
                v.extend_from_slice(&rec.wrote[i]);
                let _ = cap;
                Val::Bytes(v)
            }),
            name: "ReadIntoOwnedReadBuf",
        }
    } else {
        let fut_ = alloc::a10(|| f.write(buf).extract());
        Made {
            task: fut(fut_, |o, prod| {
                io_err(o).map(|(b, n)| {
                    let v = b.as_slice().to_vec();
                    prod.push(Produced::ReadBuf(b));
                    Val::BytesFlags(vec![v], n as i32)
                })
            }),
            expect: exp(move |rec, _, res, _| {
                if rec.taken != model[..(res as usize).min(model.len())] {
                    // The kernel was handed other bytes than the buffer held.
                    return Val::Text(format!("kernel received {:?}", rec.taken));
                }
                Val::BytesFlags(vec![model.clone()], res)
            }),
            name: "WriteReadBuf",
        }
    }
}

/// Composite operations are not compared completion by completion.
pub fn is_composite(kind: Kind) -> bool {
    matches!(kind, Kind::WriteAll | Kind::ReadN)
}

/// `AsyncFd::close` as a task.
pub fn close_task(f: a10::io::Close) -> Box<dyn DynTask> {
    fut(f, |o, _| io_err(o).map(|()| Val::Unit))
}

pub fn drop_produced(p: Produced) {
    alloc::a10(|| drop(p));
}

pub fn keep_readbuf(_b: &ReadBuf) {}
