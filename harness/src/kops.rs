//! Simulated kernel: decoding of submissions, region pinning, completion menus.

use crate::abi::*;
use crate::kernel::*;
use crate::report::{harness_error, tag, trace, violation};
use crate::stats::{self, C};
use crate::tape::{self, site};
use crate::{alloc, ev};

pub const ERRNOS: &[i32] = &[
    libc::EIO,
    libc::EBADF,
    libc::EAGAIN,
    libc::ENOMEM,
    libc::EPIPE,
    libc::ENOSPC,
    libc::ECONNRESET,
];

#[derive(Copy, Clone, Debug, Eq, PartialEq)]
pub enum Outcome {
    Ok(u32),
    Err(i32),
    /// EINTR or ECANCELED although the caller did not cancel.
    Interrupt(i32),
}

/// Deterministic stream contents of a descriptor.
pub fn stream_byte(fd: i32, pos: u64) -> u8 {
    let x = (fd as u64)
        .wrapping_mul(0x9E37_79B9)
        .wrapping_add(pos.wrapping_mul(0x85EB_CA6B))
        .wrapping_add(0x1F);
    ((x >> 5) ^ (x >> 17)) as u8
}

struct Iov {
    base: usize,
    len: usize,
}

impl Kernel {
    /// Is `[addr, addr+len)` safe for the stub to touch? Reports a violation if
    /// it lies in freed heap memory or on a thread's stack.
    fn check_region(&self, what: &str, addr: usize, len: usize, opname: &str) -> bool {
        if len == 0 {
            return true;
        }
        if addr == 0 {
            violation(
                "mem.freed-while-kernel-owns",
                format!("{opname}: null {what} of {len} bytes handed to the kernel"),
            );
            return false;
        }
        match alloc::find(addr) {
            Some((base, b)) => {
                if b.state != alloc::BlockState::Live {
                    violation(
                        "mem.freed-while-kernel-owns",
                        format!("{opname}: {what} lies in freed memory (block of {} bytes)", b.size),
                    );
                    return false;
                }
                if addr + len > base + b.size {
                    violation(
                        "mem.freed-while-kernel-owns",
                        format!(
                            "{opname}: {what} of {len} bytes runs {} bytes past its allocation of {} bytes",
                            addr + len - (base + b.size),
                            b.size
                        ),
                    );
                    return false;
                }
                true
            }
            None => {
                if crate::segv::in_stack(addr) {
                    violation(
                        "mem.freed-while-kernel-owns",
                        format!("{opname}: {what} lies on a thread stack"),
                    );
                    return false;
                }
                if crate::segv::in_guard(addr) {
                    violation(
                        "mem.freed-while-kernel-owns",
                        format!("{opname}: {what} lies in ring memory"),
                    );
                    return false;
                }
                // Static data or a mapping not made through the allocator.
                true
            }
        }
    }

    fn read_iovs(&self, addr: usize, n: usize, opname: &str) -> Option<Vec<Iov>> {
        if n > 1024 {
            harness_error(format!("{opname}: {n} iovecs"));
            return None;
        }
        if !self.check_region("iovec array", addr, n * 16, opname) {
            return None;
        }
        let mut v = Vec::with_capacity(n);
        for i in 0..n {
            let iov = unsafe { (addr as *const libc::iovec).add(i).read() };
            v.push(Iov {
                base: iov.iov_base as usize,
                len: iov.iov_len,
            });
        }
        Some(v)
    }

    fn cstr_len(&self, addr: usize, opname: &str) -> Option<usize> {
        if !self.check_region("path", addr, 1, opname) {
            return None;
        }
        let max = match alloc::find(addr) {
            Some((base, b)) => base + b.size - addr,
            None => 4096,
        };
        let mut n = 0;
        while n < max {
            if unsafe { *((addr + n) as *const u8) } == 0 {
                return Some(n + 1);
            }
            n += 1;
        }
        violation(
            "mem.freed-while-kernel-owns",
            format!("{opname}: path is not NUL terminated inside its allocation"),
        );
        None
    }

    /// Requests made through an `AsyncFd` carry its number, and
    /// `IOSQE_FIXED_FILE` exactly when it is a direct descriptor. (Whether the
    /// descriptor is still open is not checked: a queued request may legally
    /// be overtaken by the synchronous close fallback.)
    fn check_target_fd(&self, r: usize, sqe: &Sqe, opname: &str) {
        let fd = sqe.fd();
        if sqe.flags() & SQE_FIXED_FILE != 0 {
            let in_range = self.rings[r]
                .files
                .as_ref()
                .is_some_and(|t| (fd as usize) < t.len() && fd >= 0);
            if !in_range {
                violation(
                    "fd.wrong-kind",
                    format!("{opname} submitted with IOSQE_FIXED_FILE on {fd}, which is not a direct descriptor slot"),
                );
            }
        } else if fd >= FD_BASE && !self.fds.contains_key(&fd) {
            violation(
                "fd.wrong-kind",
                format!("{opname} submitted on descriptor {fd} the kernel never issued"),
            );
        }
    }

    /// A submission was consumed: decode it and put it in flight.
    pub(crate) fn submit(&mut self, r: usize, tail_idx: u32, sqe: Sqe, by_op: u32, during: During) {
        let opcode = sqe.opcode();
        let name = op_name(opcode);
        let kid = self.records.len() as u32;
        let mut rec = OpRecord {
            kid,
            ring: r,
            tail_idx,
            sqe,
            user_data: sqe.user_data(),
            opcode,
            class: OpClass::Simple,
            by_op,
            during,
            multishot: false,
            zc: false,
            cqes: Vec::new(),
            wrote: Vec::new(),
            taken: Vec::new(),
            done: false,
            fds_issued: Vec::new(),
            regions: Vec::new(),
            flags_seen: sqe.op_flags(),
            offset_seen: sqe.off(),
            buf_ids: Vec::new(),
            addr_written: Vec::new(),
            described: 0,
            cancel_target: 0,
        };
        ev!(
            "k consume sqe#{tail_idx} {name} ud={:#x} -> k{kid}",
            canon_ud(sqe.user_data())
        );
        trace(&[tag::CONSUME, u32::from(opcode)]);

        // Sanity of the entry itself: a zeroed, stale or half-filled slot fails.
        if sqe.0.iter().all(|b| *b == 0xA5) || sqe.0.iter().all(|b| *b == 0) {
            violation(
                "sq.torn",
                format!("ring#{r}: entry #{tail_idx} consumed by the kernel was never filled"),
            );
            self.records.push(rec);
            return;
        }
        if sqe.personality() != 0 || sqe.pad2() != 0 {
            violation(
                "sq.torn",
                format!("ring#{r}: entry #{tail_idx} ({name}) has non-zero reserved fields"),
            );
        }
        let allowed = SQE_FIXED_FILE | SQE_ASYNC | SQE_BUFFER_SELECT | SQE_CQE_SKIP_SUCCESS;
        if sqe.flags() & !allowed != 0 {
            harness_error(format!("{name}: sqe flags {:#x} not modelled", sqe.flags()));
        }
        let ud = sqe.user_data();
        let mut push = |rec: &mut OpRecord, what: &'static str, addr: u64, len: usize, write: bool| {
            rec.regions.push(RegionInfo {
                what,
                addr: addr as usize,
                len,
                write,
            });
        };
        let bufsel = sqe.flags() & SQE_BUFFER_SELECT != 0;
        let mut needs_fd = true;
        match opcode {
            OP_NOP => {
                rec.class = OpClass::Simple;
                needs_fd = false;
            }
            OP_READ | OP_RECV | OP_READ_MULTISHOT => {
                rec.class = OpClass::Read;
                rec.multishot = opcode == OP_READ_MULTISHOT
                    || (opcode == OP_RECV && sqe.ioprio() & RECV_MULTISHOT != 0);
                if rec.multishot && !bufsel {
                    violation("sq.torn", format!("{name}: multishot without buffer selection"));
                }
                if !bufsel {
                    push(&mut rec, "read buffer", sqe.addr(), sqe.len() as usize, true);
                    rec.described = sqe.len() as usize;
                }
            }
            OP_WRITE | OP_SEND | OP_SEND_ZC => {
                rec.class = OpClass::Write;
                rec.zc = opcode == OP_SEND_ZC;
                push(&mut rec, "write buffer", sqe.addr(), sqe.len() as usize, false);
                rec.described = sqe.len() as usize;
                if opcode != OP_WRITE && sqe.off() != 0 {
                    let alen = (sqe.file_index() & 0xffff) as usize;
                    push(&mut rec, "destination address", sqe.off(), alen, false);
                }
            }
            OP_READV | OP_WRITEV => {
                let write = opcode == OP_READV;
                rec.class = if write { OpClass::Readv } else { OpClass::Writev };
                let n = sqe.len() as usize;
                push(&mut rec, "iovec array", sqe.addr(), n * 16, false);
                if let Some(iovs) = self.read_iovs(sqe.addr() as usize, n, name) {
                    for iov in iovs {
                        rec.described += iov.len;
                        push(&mut rec, "vectored buffer", iov.base as u64, iov.len, write);
                    }
                }
            }
            OP_SENDMSG | OP_SENDMSG_ZC | OP_RECVMSG => {
                let write = opcode == OP_RECVMSG;
                rec.class = if write { OpClass::Recvmsg } else { OpClass::Sendmsg };
                rec.zc = opcode == OP_SENDMSG_ZC;
                if sqe.len() != 1 {
                    violation("sq.torn", format!("{name}: len {} (must be 1)", sqe.len()));
                }
                push(&mut rec, "message header", sqe.addr(), size_of::<libc::msghdr>(), true);
                if self.check_region("message header", sqe.addr() as usize, size_of::<libc::msghdr>(), name) {
                    let msg = unsafe { (sqe.addr() as *const libc::msghdr).read() };
                    if !msg.msg_name.is_null() && msg.msg_namelen > 0 {
                        push(&mut rec, "message address", msg.msg_name as u64, msg.msg_namelen as usize, write);
                    }
                    push(&mut rec, "iovec array", msg.msg_iov as u64, msg.msg_iovlen * 16, false);
                    if let Some(iovs) = self.read_iovs(msg.msg_iov as usize, msg.msg_iovlen, name) {
                        for iov in iovs {
                            if bufsel && iov.len == 0 {
                                continue;
                            }
                            rec.described += iov.len;
                            push(&mut rec, "vectored buffer", iov.base as u64, iov.len, write);
                        }
                    }
                }
            }
            OP_ACCEPT => {
                rec.class = OpClass::Accept;
                rec.multishot = sqe.ioprio() & ACCEPT_MULTISHOT != 0;
                if sqe.addr() != 0 {
                    push(&mut rec, "address length", sqe.off(), 4, true);
                    if self.check_region("address length", sqe.off() as usize, 4, name) {
                        let alen = unsafe { (sqe.off() as *const u32).read() } as usize;
                        push(&mut rec, "peer address", sqe.addr(), alen, true);
                    }
                }
            }
            OP_CONNECT => {
                rec.class = OpClass::AddrIn;
                push(&mut rec, "address", sqe.addr(), sqe.off() as usize, false);
            }
            OP_BIND => {
                rec.class = OpClass::AddrIn;
                push(&mut rec, "address", sqe.addr(), sqe.off() as usize, false);
            }
            OP_LISTEN | OP_SHUTDOWN | OP_FSYNC | OP_FADVISE | OP_FALLOCATE | OP_FTRUNCATE => {
                rec.class = OpClass::Simple;
            }
            OP_MADVISE => {
                rec.class = OpClass::Simple;
                needs_fd = false;
            }
            OP_SPLICE => {
                rec.class = OpClass::Count;
                rec.described = sqe.len() as usize;
                // `fd` is the output side and may be a descriptor of the
                // application that the stub does not know.
                needs_fd = false;
            }
            OP_OPENAT => {
                rec.class = OpClass::FdCreate;
                needs_fd = false;
                if let Some(n) = self.cstr_len(sqe.addr() as usize, name) {
                    push(&mut rec, "path", sqe.addr(), n, false);
                }
            }
            OP_SOCKET => {
                rec.class = OpClass::FdCreate;
                needs_fd = false;
            }
            OP_MKDIRAT | OP_UNLINKAT => {
                rec.class = OpClass::Simple;
                needs_fd = false;
                if let Some(n) = self.cstr_len(sqe.addr() as usize, name) {
                    push(&mut rec, "path", sqe.addr(), n, false);
                }
            }
            OP_RENAMEAT => {
                rec.class = OpClass::Simple;
                needs_fd = false;
                if let Some(n) = self.cstr_len(sqe.addr() as usize, name) {
                    push(&mut rec, "old path", sqe.addr(), n, false);
                }
                if let Some(n) = self.cstr_len(sqe.off() as usize, name) {
                    push(&mut rec, "new path", sqe.off(), n, false);
                }
            }
            OP_STATX => {
                rec.class = OpClass::Statx;
                if let Some(n) = self.cstr_len(sqe.addr() as usize, name) {
                    push(&mut rec, "path", sqe.addr(), n, false);
                }
                push(&mut rec, "statx result", sqe.off(), 256, true);
            }
            OP_PIPE => {
                rec.class = OpClass::Pipe;
                needs_fd = false;
                push(&mut rec, "descriptor pair", sqe.addr(), 8, true);
            }
            OP_FILES_UPDATE => {
                rec.class = OpClass::FilesUpdate;
                needs_fd = false;
                push(&mut rec, "descriptor array", sqe.addr(), sqe.len() as usize * 4, true);
                if sqe.off() as u32 != FILE_INDEX_ALLOC {
                    harness_error(format!("FILES_UPDATE offset {} not modelled", sqe.off()));
                }
            }
            OP_FIXED_FD_INSTALL => {
                rec.class = OpClass::FdInstall;
                if sqe.flags() & SQE_FIXED_FILE == 0 {
                    violation(
                        "fd.wrong-kind",
                        "FIXED_FD_INSTALL submitted without IOSQE_FIXED_FILE".to_string(),
                    );
                }
            }
            OP_WAITID => {
                rec.class = OpClass::Waitid;
                needs_fd = false;
                push(&mut rec, "wait info", sqe.off(), 128, true);
            }
            OP_URING_CMD => {
                let cmd = sqe.off() as u32;
                match cmd {
                    SOCKET_OP_GETSOCKOPT => {
                        rec.class = OpClass::SockoptGet;
                        push(&mut rec, "option value", sqe.addr3(), sqe.file_index() as usize, true);
                    }
                    SOCKET_OP_SETSOCKOPT => {
                        rec.class = OpClass::SockoptSet;
                        push(&mut rec, "option value", sqe.addr3(), sqe.file_index() as usize, false);
                    }
                    SOCKET_OP_GETSOCKNAME => {
                        rec.class = OpClass::Sockname;
                        push(&mut rec, "address length", sqe.addr3(), 4, true);
                        if self.check_region("address length", sqe.addr3() as usize, 4, name) {
                            let alen = unsafe { (sqe.addr3() as *const u32).read() } as usize;
                            push(&mut rec, "socket address", sqe.addr(), alen, true);
                        }
                    }
                    _ => harness_error(format!("URING_CMD {cmd} not modelled")),
                }
            }
            OP_POLL_ADD => {
                rec.class = OpClass::Poll;
                rec.multishot = sqe.len() & POLL_ADD_MULTI != 0;
                needs_fd = false;
            }
            OP_CLOSE => {
                rec.class = OpClass::Close;
                needs_fd = false;
            }
            OP_ASYNC_CANCEL => {
                rec.class = OpClass::Cancel;
                rec.cancel_target = sqe.addr();
                needs_fd = false;
            }
            OP_MSG_RING => {
                rec.class = OpClass::MsgRing;
                needs_fd = false;
            }
            _ => {
                harness_error(format!("opcode {opcode} not modelled"));
                self.records.push(rec);
                return;
            }
        }
        if needs_fd {
            self.check_target_fd(r, &sqe, name);
        }

        // Immediate operations.
        match rec.class {
            OpClass::Close => {
                let idx = sqe.file_index();
                // The same operation issuing the same CLOSE again after the
                // first one reported EINTR: the descriptor was released by the
                // first one (io_close reports ->flush errors after the fact).
                let reissued = rec.by_op != NO_OP
                    && self.records.iter().any(|p| {
                        p.by_op == rec.by_op
                            && p.during == rec.during
                            && matches!(p.class, OpClass::Close)
                            && p.sqe == rec.sqe
                            && p.cqes.last().is_some_and(|c| c.0 == -libc::EINTR)
                    });
                let res = if reissued {
                    violation(
                        "fd.double-close.interrupted-close",
                        format!(
                            "AsyncFd::close(): the CLOSE that ended with EINTR (descriptor already released) was issued again for {}",
                            if idx != 0 { "the same direct slot" } else { "the same descriptor number" }
                        ),
                    );
                    -libc::EBADF
                } else if sqe.flags() & SQE_FIXED_FILE != 0 {
                    // io_close_prep: IOSQE_FIXED_FILE is refused, nothing is closed
                    // (conformance script close-fixed-file-flag).
                    -libc::EBADF
                } else if idx != 0 {
                    if sqe.fd() != 0 {
                        violation(
                            "fd.wrong-kind",
                            format!("CLOSE with both fd {} and file_index {idx}", sqe.fd()),
                        );
                    }
                    self.close_direct(r, idx - 1, "IORING_OP_CLOSE")
                } else {
                    self.close_regular(sqe.fd(), "IORING_OP_CLOSE")
                };
                let res = if res == 0 && tape::chance(site::FAULT, self.cfg.p_close_err, 100) {
                    stats::inc(C::fault_close_error);
                    // Whatever ->flush reports, or a descriptor table changed
                    // behind a10's back: any errno may come with user_data 3.
                    -tape::pick(site::FAULT, &[libc::EIO, libc::EBADF, libc::EINTR, libc::ENOSPC])
                } else {
                    res
                };
                rec.cqes.push((res, 0));
                rec.done = true;
                self.records.push(rec);
                if res != 0 || sqe.flags() & SQE_CQE_SKIP_SUCCESS == 0 {
                    self.post_inline(r, Cqe { user_data: ud, res, flags: 0 });
                }
                return;
            }
            OpClass::MsgRing => {
                let res = self.msg_ring(&sqe);
                rec.cqes.push((res, 0));
                rec.done = true;
                self.records.push(rec);
                if res != 0 || sqe.flags() & SQE_CQE_SKIP_SUCCESS == 0 {
                    self.post_inline(r, Cqe { user_data: ud, res, flags: 0 });
                }
                return;
            }
            OpClass::Cancel => {
                self.records.push(rec);
                self.do_cancel(r, kid, &sqe);
                return;
            }
            _ => {}
        }

        // Pin everything the request handed to the kernel until its final CQE.
        let mut pins = Vec::new();
        let describe = |what: &str| format!("{what} of in-flight {name} (k{kid})");
        for reg in &rec.regions {
            if reg.len == 0 {
                continue;
            }
            if reg.write {
                for (a, l, what) in &self.held_ranges {
                    if reg.addr < a + l && *a < reg.addr + reg.len {
                        violation(
                            "notify.event-reused",
                            format!("{name}: the kernel is asked to write over {what}, which the application can still use"),
                        );
                    }
                }
            }
            if !self.check_region(reg.what, reg.addr, reg.len, name) {
                continue;
            }
            if let Some((base, _)) = alloc::find(reg.addr) {
                if alloc::pin(base, &describe(reg.what)) {
                    pins.push(base);
                }
            }
        }
        if ud > 3 {
            match alloc::find((ud & !1) as usize) {
                Some((base, b)) if b.state == alloc::BlockState::Live => {
                    if alloc::pin(base, &describe("operation state")) {
                        pins.push(base);
                    }
                }
                Some(_) => violation(
                    "mem.freed-while-kernel-owns",
                    format!("{name}: user_data points into freed memory"),
                ),
                None => violation(
                    "sq.torn",
                    format!("{name}: user_data {ud:#x} is neither reserved nor a live allocation"),
                ),
            }
        } else if !matches!(rec.class, OpClass::Close | OpClass::Cancel | OpClass::MsgRing) {
            violation(
                "sq.torn",
                format!("{name}: operation submitted with reserved user_data {ud}"),
            );
        }
        if bufsel {
            if !self.rings[r].pbufs.contains_key(&sqe.buf_group()) && !self.cfg.foreign_groups {
                violation(
                    "pool.bad-entry",
                    format!("{name}: buffer group is not registered"),
                );
            }
        }
        // Refused at submission time (the prep stage: a path that is too long,
        // an address that cannot be read, ...): nothing happens, the error
        // completion is posted at once and, without SUBMIT_ALL, the batch ends.
        let refuse = ud > 3
            && !matches!(rec.class, OpClass::Close | OpClass::Cancel | OpClass::MsgRing)
            && self.cfg.p_prep_fail > 0
            && tape::chance(site::FAULT, self.cfg.p_prep_fail, 100);
        if refuse {
            stats::inc(C::fault_prep_refused);
            let res = -tape::pick(site::FAULT, &[libc::ENAMETOOLONG, libc::EFAULT, libc::EOVERFLOW]);
            ev!("k refuse k{kid} at submission: {}", errno_name(-res));
            for p in pins {
                alloc::unpin(p);
            }
            rec.cqes.push((res, 0));
            rec.wrote.push(Vec::new());
            rec.done = true;
            self.records.push(rec);
            self.prep_refused = true;
            stats::inc(C::total_ops_completed);
            self.post_inline(r, Cqe { user_data: ud, res, flags: 0 });
            return;
        }
        self.records.push(rec);
        self.rings[r].inflight_push(kid, pins);
    }

    fn do_cancel(&mut self, r: usize, kid: u32, sqe: &Sqe) {
        stats::inc(C::probe_cancel_seen);
        let target = sqe.addr();
        let ud = sqe.user_data();
        let skip = sqe.flags() & SQE_CQE_SKIP_SUCCESS != 0;
        if sqe.op_flags() != 0 {
            harness_error(format!("ASYNC_CANCEL flags {:#x} not modelled", sqe.op_flags()));
        }
        let found = self.rings[r]
            .inflight_find(|k| self.records[k as usize].user_data == target);
        let res = match found {
            None => {
                stats::inc(C::fault_cancel_enoent);
                -libc::ENOENT
            }
            Some(tkid) => {
                let notif_pending = self.rings[r].inflight_notif_pending(tkid);
                let wins = !notif_pending && tape::weighted(site::CANCEL, &self.cfg.cancel_w) == 0;
                if wins {
                    stats::inc(C::fault_cancel_wins);
                    self.finish_with(r, tkid, -libc::ECANCELED);
                    0
                } else {
                    stats::inc(C::fault_cancel_loses);
                    crate::report::nontrivial();
                    -libc::EALREADY
                }
            }
        };
        trace(&[tag::CANCEL, res.unsigned_abs()]);
        ev!("k cancel -> {}", if res == 0 { "ok" } else { errno_name(-res) });
        let rec = &mut self.records[kid as usize];
        rec.cqes.push((res, 0));
        rec.done = true;
        if res != 0 || !skip {
            self.post_inline(r, Cqe { user_data: ud, res, flags: 0 });
        }
    }

    /// Operations of ring `r` that can receive a completion now.
    pub fn completable(&self, r: usize) -> Vec<u32> {
        let mut kids = self.rings[r].inflight_kids();
        if !self.silent_by_op.is_empty() {
            kids.retain(|k| !self.silent_by_op.contains(&self.records[*k as usize].by_op));
        }
        kids
    }

    /// Complete one drawn in-flight operation of ring `r`.
    pub fn complete_some(&mut self, r: usize) -> Option<u32> {
        let kids = self.completable(r);
        if kids.is_empty() {
            return None;
        }
        let kid = kids[tape::choose(site::KPICK, kids.len() as u32) as usize];
        self.complete_kid(r, kid, false);
        Some(kid)
    }

    /// Post the final completion `res` for `kid` (cancellation, teardown).
    pub fn finish_with(&mut self, r: usize, kid: u32, res: i32) {
        let Some(inf) = self.rings[r].inflight_take(kid) else {
            return;
        };
        let ud = self.records[kid as usize].user_data;
        let (res, flags) = if inf.notif_pending {
            (0, CQE_F_NOTIF)
        } else {
            (res, 0)
        };
        ev!("k final k{kid} res={res} flags={flags:#x}");
        let rec = &mut self.records[kid as usize];
        rec.cqes.push((res, flags));
        rec.wrote.push(Vec::new());
        rec.done = true;
        for p in inf.pins {
            alloc::unpin(p);
        }
        stats::inc(C::total_ops_completed);
        self.post(r, Cqe { user_data: ud, res, flags });
    }

    fn draw_outcome(&mut self, fd: i32, max: usize, data: bool) -> Outcome {
        // One request transfers at most MAX_RW_COUNT bytes (INT_MAX rounded
        // down to a page), however much it describes.
        let max = max.min(0x7fff_f000);
        if let Some(q) = self.counts.get_mut(&fd) {
            if let Some(c) = q.pop_front() {
                if c < 0 || (c as usize) < max {
                    crate::report::nontrivial();
                }
                return if c < 0 {
                    let e = (-c) as i32;
                    if e == libc::EINTR || e == libc::ECANCELED {
                        Outcome::Interrupt(e)
                    } else {
                        Outcome::Err(e)
                    }
                } else {
                    if (c as usize) < max {
                        if c == 0 {
                            stats::inc(C::fault_zero);
                        } else {
                            stats::inc(C::fault_short);
                        }
                    }
                    Outcome::Ok((c as usize).min(max) as u32)
                };
            }
        }
        let cfg = &self.cfg;
        let v = tape::choose(site::OUTCOME, 100);
        // Value 0 (and the low range) is the plain full success.
        let mut edge: i64 = 100;
        let v = i64::from(v);
        edge -= i64::from(cfg.p_intr);
        if v >= edge && cfg.p_intr > 0 {
            crate::report::nontrivial();
            return if tape::choose(site::ERRNO, 2) == 0 {
                stats::inc(C::fault_eintr);
                Outcome::Interrupt(libc::EINTR)
            } else {
                stats::inc(C::fault_ecanceled);
                Outcome::Interrupt(libc::ECANCELED)
            };
        }
        edge -= i64::from(cfg.p_errno);
        if v >= edge && cfg.p_errno > 0 {
            stats::inc(C::fault_errno);
            crate::report::nontrivial();
            return Outcome::Err(tape::pick(site::ERRNO, ERRNOS));
        }
        if data && !self.full_only.contains(&fd) {
            edge -= i64::from(cfg.p_zero);
            if v >= edge && cfg.p_zero > 0 {
                stats::inc(C::fault_zero);
                crate::report::nontrivial();
                return Outcome::Ok(0);
            }
            edge -= i64::from(cfg.p_short);
            if v >= edge && cfg.p_short > 0 && max > 1 {
                stats::inc(C::fault_short);
                crate::report::nontrivial();
                return Outcome::Ok(1 + tape::choose(site::LEN, max as u32 - 1));
            }
        }
        Outcome::Ok(max as u32)
    }

    /// Produce the next `n` bytes a read on `fd` returns.
    fn read_source(&mut self, fd: i32, n: usize) -> Vec<u8> {
        if let Some(q) = self.scripts.get_mut(&fd) {
            // An empty chunk is the end of the stream, and stays.
            if q.front().is_some_and(Vec::is_empty) {
                return Vec::new();
            }
            return match q.pop_front() {
                Some(mut chunk) => {
                    if chunk.len() > n {
                        let rest = chunk.split_off(n);
                        q.push_front(rest);
                    }
                    chunk
                }
                None => Vec::new(),
            };
        }
        let pos = self.stream_pos.entry(fd).or_insert(0);
        let data = (0..n as u64).map(|i| stream_byte(fd, *pos + i)).collect();
        *pos += n as u64;
        data
    }

    /// Select a provided buffer for `bgid` on ring `r`.
    fn pick_buffer(&mut self, r: usize, bgid: u16) -> Result<(u16, usize, usize), i32> {
        self.observe_pbufs(r);
        let Some(p) = self.rings[r].pbufs.get_mut(&bgid) else {
            return Err(libc::ENOBUFS);
        };
        let avail = p.seen_tail.wrapping_sub(p.head);
        if avail == 0 {
            stats::inc(C::probe_pool_enobufs);
            stats::inc(C::fault_enobufs);
            return Err(libc::ENOBUFS);
        }
        let mask = p.entries - 1;
        let e = unsafe { (p.ring_addr as *const Buf).add((p.head & mask) as usize).read() };
        p.head = p.head.wrapping_add(1);
        if p.base.is_some()
            && e.len == p.buf_size
            && alloc::find(e.addr as usize).is_some_and(|(b, blk)| {
                blk.state == alloc::BlockState::Live && e.addr as usize + e.len as usize <= b + blk.size
            })
        {
            let bytes = unsafe { std::slice::from_raw_parts(e.addr as *const u8, e.len as usize) };
            if let Some(pos) = bytes.iter().position(|b| *b != 0xC5) {
                violation(
                    "readbuf.neighbour-touched",
                    format!("pool buffer #{} was modified at offset {pos} while it was offered to the kernel", e.bid),
                );
            }
        }
        if p.handed_out.contains(&e.bid) {
            violation(
                "pool.double-offer",
                format!("buffer #{} offered to the kernel while it is owned by the application", e.bid),
            );
        }
        p.handed_out.push(e.bid);
        Ok((e.bid, e.addr as usize, e.len as usize))
    }

    /// Look at what a10 wrote to the buffer rings of ring `r`.
    pub fn observe_pbufs(&mut self, r: usize) {
        for (_, p) in self.rings[r].pbufs.iter_mut() {
            if !p.pins.iter().all(|b| {
                alloc::find(*b).is_some_and(|(_, blk)| blk.state == alloc::BlockState::Live)
            }) {
                continue;
            }
            let tail = unsafe {
                (*((p.ring_addr + 14) as *const std::sync::atomic::AtomicU16))
                    .load(std::sync::atomic::Ordering::Acquire)
            };
            let mask = p.entries - 1;
            let new = tail.wrapping_sub(p.seen_tail);
            if new == 0 {
                continue;
            }
            if u32::from(tail.wrapping_sub(p.head)) > u32::from(p.entries) {
                violation(
                    "pool.double-offer",
                    format!(
                        "buffer ring holds {} entries but has room for {}",
                        tail.wrapping_sub(p.head),
                        p.entries
                    ),
                );
                p.seen_tail = tail;
                continue;
            }
            for i in 0..new {
                let idx = p.seen_tail.wrapping_add(i);
                let e = unsafe { (p.ring_addr as *const Buf).add((idx & mask) as usize).read() };
                p.last_entry = Some((e.addr as usize, e.bid));
                if p.base.is_none() {
                    // Initial fill: learn the geometry from entry 0.
                    if e.bid == 0 {
                        p.base = Some(e.addr as usize);
                        p.buf_size = e.len;
                        if let Some((base, b)) = alloc::find(e.addr as usize) {
                            if b.state == alloc::BlockState::Live
                                && alloc::pin(base, "buffer pool memory registered with the kernel")
                            {
                                p.pins.push(base);
                            }
                        }
                    }
                }
                if let Some(base) = p.base {
                    let want = base + e.bid as usize * p.buf_size as usize;
                    if e.addr as usize != want || e.len != p.buf_size || e.bid >= p.entries {
                        violation(
                            "pool.bad-entry",
                            format!(
                                "buffer ring entry for #{}: address off by {} bytes, len {} (buffer size {})",
                                e.bid,
                                (e.addr as i64).wrapping_sub(want as i64),
                                e.len,
                                p.buf_size
                            ),
                        );
                    }
                }
                // The kernel owns offered buffers: canary them, so a write by
                // the application while they are offered is visible.
                if p.base.is_some()
                    && e.len == p.buf_size
                    && alloc::find(e.addr as usize).is_some_and(|(b, blk)| {
                        blk.state == alloc::BlockState::Live && e.addr as usize + e.len as usize <= b + blk.size
                    })
                {
                    unsafe { std::ptr::write_bytes(e.addr as *mut u8, 0xC5, e.len as usize) };
                }
                if p.total_released >= u64::from(p.entries) {
                    // A release (not the initial fill).
                    match p.handed_out.iter().position(|b| *b == e.bid) {
                        Some(pos) => {
                            p.handed_out.swap_remove(pos);
                        }
                        None => violation(
                            "pool.double-offer",
                            format!("buffer #{} given back although the application does not own it", e.bid),
                        ),
                    }
                }
                p.total_released += 1;
            }
            if tail < p.seen_tail {
                stats::inc(C::probe_pool_tail_wrapped_16);
            }
            p.seen_tail = tail;
            // Window must hold pairwise distinct buffers.
            let n = tail.wrapping_sub(p.head);
            let mut seen: Vec<u16> = Vec::with_capacity(n as usize);
            for i in 0..n {
                let e = unsafe {
                    (p.ring_addr as *const Buf)
                        .add((p.head.wrapping_add(i) & mask) as usize)
                        .read()
                };
                if seen.contains(&e.bid) {
                    violation(
                        "pool.double-offer",
                        format!("buffer #{} is offered to the kernel twice", e.bid),
                    );
                }
                seen.push(e.bid);
            }
        }
    }

    /// Write `data` into user memory at `addr` for op `kid` (liveness checked).
    fn put(&self, what: &str, addr: usize, data: &[u8], name: &str) -> bool {
        if data.is_empty() {
            return true;
        }
        if !self.check_region(what, addr, data.len(), name) {
            return false;
        }
        unsafe { std::ptr::copy_nonoverlapping(data.as_ptr(), addr as *mut u8, data.len()) };
        true
    }

    fn get(&self, what: &str, addr: usize, len: usize, name: &str) -> Option<Vec<u8>> {
        if len == 0 {
            return Some(Vec::new());
        }
        if !self.check_region(what, addr, len, name) {
            return None;
        }
        Some(unsafe { std::slice::from_raw_parts(addr as *const u8, len) }.to_vec())
    }

    fn issue_descriptor(&mut self, r: usize, kid: u32, file_index: u32) -> Result<(i32, bool), i32> {
        if file_index == FILE_INDEX_ALLOC {
            self.alloc_slot(r, kid).map(|s| (s as i32, true))
        } else if file_index == 0 {
            Ok((self.issue_fd("kernel", kid), false))
        } else {
            harness_error(format!("fixed file_index {file_index} not modelled"));
            Err(libc::EINVAL)
        }
    }

    fn sockaddr_in(kid: u32) -> Vec<u8> {
        let mut v = vec![0u8; 16];
        v[0..2].copy_from_slice(&(libc::AF_INET as u16).to_ne_bytes());
        v[2..4].copy_from_slice(&(1024 + (kid as u16 % 5000)).to_be_bytes());
        v[4..8].copy_from_slice(&[127, 0, 0, 1]);
        v
    }

    /// Complete (or advance) operation `kid`. `force_final` ends multishot
    /// series and two-step operations.
    pub fn complete_kid(&mut self, r: usize, kid: u32, force_final: bool) {
        let rec = self.records[kid as usize].clone();
        let name = op_name(rec.opcode);
        let sqe = rec.sqe;
        let ud = rec.user_data;
        // A signalfd keeps its read semantics when it lives in a direct slot.
        let fd = if sqe.flags() & SQE_FIXED_FILE != 0 {
            self.rings[r].slot_src.get(&(sqe.fd() as u32)).copied().unwrap_or(sqe.fd())
        } else {
            sqe.fd()
        };
        let bufsel = sqe.flags() & SQE_BUFFER_SELECT != 0;

        // Second step of a zero-copy send.
        if self.rings[r].inflight_notif_pending(kid) {
            self.finish_with(r, kid, 0);
            return;
        }

        let mut res: i32;
        let mut flags: u32 = 0;
        let mut wrote: Vec<u8> = Vec::new();
        let mut last = true;

        match rec.class {
            OpClass::Read => {
                let (target, cap, bid) = if bufsel {
                    match self.pick_buffer(r, sqe.buf_group()) {
                        Ok((bid, addr, len)) => (addr, len, Some(bid)),
                        Err(e) => {
                            self.finish_with(r, kid, -e);
                            return;
                        }
                    }
                } else {
                    (sqe.addr() as usize, sqe.len() as usize, None)
                };
                match self.draw_outcome(fd, cap, true) {
                    Outcome::Ok(n) => {
                        let data = self.read_source(fd, n as usize);
                        res = data.len() as i32;
                        self.put("read buffer", target, &data, name);
                        wrote = data;
                        match bid {
                            // A multishot read that hits the end of the stream
                            // terminates without consuming a buffer (probed on
                            // Linux 6.18); a single read at EOF does consume one.
                            Some(bid) if rec.multishot && res == 0 => {
                                if let Some(p) = self.rings[r].pbufs.get_mut(&sqe.buf_group()) {
                                    p.head = p.head.wrapping_sub(1);
                                    p.handed_out.retain(|b| *b != bid);
                                }
                            }
                            Some(bid) => {
                                flags |= CQE_F_BUFFER | (u32::from(bid) << CQE_BUFFER_SHIFT);
                                self.records[kid as usize].buf_ids.push(bid);
                            }
                            None => {}
                        }
                        if rec.multishot {
                            // A series: more follows unless the stream ended.
                            last = force_final || res == 0 || tape::chance(site::KSTEP, 1, 5);
                        }
                    }
                    Outcome::Err(e) | Outcome::Interrupt(e) => {
                        res = -e;
                        // An aborted attempt may leave junk behind; it must not count.
                        if bid.is_none() && cap > 0 {
                            let junk = vec![0xEE; cap.min(8)];
                            self.put("read buffer", target, &junk, name);
                        }
                        if let Some(bid) = bid {
                            // No data: the buffer goes back unused.
                            if let Some(p) = self.rings[r].pbufs.get_mut(&sqe.buf_group()) {
                                p.head = p.head.wrapping_sub(1);
                                p.handed_out.retain(|b| *b != bid);
                            }
                        }
                    }
                }
            }
            OpClass::Write => {
                let len = sqe.len() as usize;
                if sqe.off() != 0 && rec.opcode != OP_WRITE {
                    let alen = (sqe.file_index() & 0xffff) as usize;
                    if let Some(a) = self.get("destination address", sqe.off() as usize, alen, name) {
                        self.records[kid as usize].addr_written = a;
                    }
                }
                match self.draw_outcome(fd, len, true) {
                    Outcome::Ok(n) => {
                        res = n as i32;
                        if let Some(d) = self.get("write buffer", sqe.addr() as usize, n as usize, name) {
                            self.records[kid as usize].taken = d;
                        }
                    }
                    Outcome::Err(e) | Outcome::Interrupt(e) => res = -e,
                }
            }
            OpClass::Readv | OpClass::Recvmsg | OpClass::Writev | OpClass::Sendmsg => {
                let is_msg = matches!(rec.class, OpClass::Recvmsg | OpClass::Sendmsg);
                let reading = matches!(rec.class, OpClass::Readv | OpClass::Recvmsg);
                let (iov_addr, iov_n, msg_ptr) = if is_msg {
                    if !self.check_region("message header", sqe.addr() as usize, size_of::<libc::msghdr>(), name) {
                        self.finish_with(r, kid, -libc::EFAULT);
                        return;
                    }
                    let msg = unsafe { (sqe.addr() as *const libc::msghdr).read() };
                    (msg.msg_iov as usize, msg.msg_iovlen, Some(sqe.addr() as *mut libc::msghdr))
                } else {
                    (sqe.addr() as usize, sqe.len() as usize, None)
                };
                let Some(mut iovs) = self.read_iovs(iov_addr, iov_n, name) else {
                    self.finish_with(r, kid, -libc::EFAULT);
                    return;
                };
                let mut bid = None;
                if bufsel && reading {
                    match self.pick_buffer(r, sqe.buf_group()) {
                        Ok((b, addr, len)) => {
                            bid = Some(b);
                            iovs = vec![Iov { base: addr, len }];
                        }
                        Err(e) => {
                            self.finish_with(r, kid, -e);
                            return;
                        }
                    }
                }
                let total: usize = iovs.iter().map(|i| i.len).sum();
                match self.draw_outcome(fd, total, true) {
                    Outcome::Ok(n) => {
                        if reading {
                            let data = self.read_source(fd, n as usize);
                            res = data.len() as i32;
                            let mut off = 0;
                            for iov in &iovs {
                                if off >= data.len() {
                                    break;
                                }
                                let take = iov.len.min(data.len() - off);
                                self.put("vectored buffer", iov.base, &data[off..off + take], name);
                                off += take;
                            }
                            wrote = data;
                            if let Some(b) = bid {
                                flags |= CQE_F_BUFFER | (u32::from(b) << CQE_BUFFER_SHIFT);
                                self.records[kid as usize].buf_ids.push(b);
                            }
                            if let Some(msg) = msg_ptr {
                                // Source address and flags of the message.
                                let m = unsafe { &mut *msg };
                                if !m.msg_name.is_null() && m.msg_namelen >= 16 {
                                    let a = Self::sockaddr_in(kid);
                                    if self.put("message address", m.msg_name as usize, &a, name) {
                                        m.msg_namelen = 16;
                                        self.records[kid as usize].addr_written = a;
                                    }
                                } else {
                                    m.msg_namelen = 0;
                                }
                                m.msg_flags = (kid as i32 & 1) * libc::MSG_TRUNC;
                            }
                        } else {
                            res = n as i32;
                            let mut left = n as usize;
                            let mut taken = Vec::new();
                            for iov in &iovs {
                                if left == 0 {
                                    break;
                                }
                                let take = iov.len.min(left);
                                // Contents are recorded up to 1 MiB per request
                                // (huge transfers are judged by their sizes).
                                let keep = take.min((1usize << 20).saturating_sub(taken.len()));
                                if keep > 0 {
                                    if let Some(d) = self.get("vectored buffer", iov.base, keep, name) {
                                        taken.extend_from_slice(&d);
                                    }
                                }
                                left -= take;
                            }
                            self.records[kid as usize].taken = taken;
                            if let Some(msg) = msg_ptr {
                                let m = unsafe { &*msg };
                                if !m.msg_name.is_null() && m.msg_namelen > 0 {
                                    if let Some(a) = self.get("message address", m.msg_name as usize, m.msg_namelen as usize, name) {
                                        self.records[kid as usize].addr_written = a;
                                    }
                                }
                            }
                        }
                    }
                    Outcome::Err(e) | Outcome::Interrupt(e) => {
                        res = -e;
                        if let Some(b) = bid {
                            if let Some(p) = self.rings[r].pbufs.get_mut(&sqe.buf_group()) {
                                p.head = p.head.wrapping_sub(1);
                                p.handed_out.retain(|x| *x != b);
                            }
                        }
                    }
                }
            }
            OpClass::Accept | OpClass::FdCreate | OpClass::FdInstall => {
                match self.draw_outcome(fd, 0, false) {
                    Outcome::Ok(_) => {
                        let idx = if rec.class == OpClass::FdInstall { 0 } else { sqe.file_index() };
                        match self.issue_descriptor(r, kid, idx) {
                            Ok((d, direct)) => {
                                res = d;
                                self.records[kid as usize].fds_issued.push((d, direct));
                                if rec.class == OpClass::Accept && sqe.addr() != 0 {
                                    let a = Self::sockaddr_in(kid);
                                    if self.put("peer address", sqe.addr() as usize, &a, name)
                                        && self.put("address length", sqe.off() as usize, &16u32.to_ne_bytes(), name)
                                    {
                                        self.records[kid as usize].addr_written = a;
                                    }
                                }
                                ev!("k issue {} {}", if direct { "slot" } else { "fd#" }, if direct { d } else { d - FD_BASE });
                            }
                            Err(e) => res = -e,
                        }
                        if rec.multishot {
                            last = force_final || res < 0 || tape::chance(site::KSTEP, 1, 5);
                        }
                    }
                    Outcome::Err(e) | Outcome::Interrupt(e) => res = -e,
                }
            }
            OpClass::Pipe if tape::chance(site::FAULT, self.cfg.p_pipe_einval, 100) => {
                // An older kernel: the operation does not exist.
                stats::inc(C::fault_errno);
                crate::report::nontrivial();
                res = -libc::EINVAL;
            }
            OpClass::Pipe => match self.draw_outcome(fd, 0, false) {
                Outcome::Ok(_) => {
                    let a = self.issue_descriptor(r, kid, sqe.file_index());
                    let b = self.issue_descriptor(r, kid, sqe.file_index());
                    match (a, b) {
                        (Ok((x, d)), Ok((y, _))) => {
                            let mut bytes = Vec::new();
                            bytes.extend_from_slice(&x.to_ne_bytes());
                            bytes.extend_from_slice(&y.to_ne_bytes());
                            self.put("descriptor pair", sqe.addr() as usize, &bytes, name);
                            self.records[kid as usize].fds_issued.push((x, d));
                            self.records[kid as usize].fds_issued.push((y, d));
                            res = 0;
                        }
                        (Ok((x, d)), Err(e)) => {
                            // Undo the first half.
                            if d {
                                if let Some(t) = &mut self.rings[r].files {
                                    t[x as usize] = None;
                                }
                            } else {
                                self.fds.remove(&x);
                            }
                            res = -e;
                        }
                        (Err(e), _) => res = -e,
                    }
                }
                Outcome::Err(e) | Outcome::Interrupt(e) => res = -e,
            },
            OpClass::FilesUpdate => match self.draw_outcome(fd, 0, false) {
                Outcome::Ok(_) => {
                    let src = self
                        .get("descriptor array", sqe.addr() as usize, 4, name)
                        .map(|b| i32::from_ne_bytes(b.try_into().unwrap()));
                    match src {
                        // A queued request may have been overtaken by the
                        // synchronous close fallback: EBADF, like the real kernel.
                        Some(src) if src >= FD_BASE && !self.fds.get(&src).is_some_and(|i| i.open) => {
                            res = -libc::EBADF;
                        }
                        Some(src) => match self.alloc_slot(r, kid) {
                            Ok(slot) => {
                                if self.full_only.contains(&src) {
                                    self.rings[r].slot_src.insert(slot, src);
                                }
                                self.put("descriptor array", sqe.addr() as usize, &(slot as i32).to_ne_bytes(), name);
                                self.records[kid as usize].fds_issued.push((slot as i32, true));
                                res = 1;
                            }
                            Err(e) => res = -e,
                        },
                        None => res = -libc::EFAULT,
                    }
                }
                Outcome::Err(e) | Outcome::Interrupt(e) => res = -e,
            },
            OpClass::Statx => match self.draw_outcome(fd, 0, false) {
                Outcome::Ok(_) => {
                    let mut st = vec![0u8; 256];
                    st[0..4].copy_from_slice(&sqe.len().to_ne_bytes()); // stx_mask = requested
                    st[4..8].copy_from_slice(&4096u32.to_ne_bytes());
                    st[28..30].copy_from_slice(&(0o100_644u16).to_ne_bytes());
                    st[40..48].copy_from_slice(&(1000 + u64::from(kid)).to_ne_bytes()); // stx_size
                    // Four different timestamps: atime, btime, ctime, mtime.
                    for (slot, base) in [(64usize, 1_000_000i64), (80, 2_000_000), (96, 3_000_000), (112, 4_000_000)] {
                        st[slot..slot + 8].copy_from_slice(&(base + i64::from(kid)).to_ne_bytes());
                        st[slot + 8..slot + 12].copy_from_slice(&(7u32 + slot as u32).to_ne_bytes());
                    }
                    self.put("statx result", sqe.off() as usize, &st, name);
                    wrote = st;
                    res = 0;
                }
                Outcome::Err(e) | Outcome::Interrupt(e) => res = -e,
            },
            OpClass::Waitid => match self.draw_outcome(fd, 0, false) {
                Outcome::Ok(_) => {
                    let mut si = vec![0u8; 128];
                    si[0..4].copy_from_slice(&libc::SIGCHLD.to_ne_bytes());
                    si[8..12].copy_from_slice(&libc::CLD_EXITED.to_ne_bytes());
                    si[16..20].copy_from_slice(&(4000 + kid as i32).to_ne_bytes());
                    self.put("wait info", sqe.off() as usize, &si, name);
                    wrote = si;
                    res = 0;
                }
                Outcome::Err(e) | Outcome::Interrupt(e) => res = -e,
            },
            OpClass::SockoptGet => match self.draw_outcome(fd, 0, false) {
                Outcome::Ok(_) => {
                    let n = sqe.file_index() as usize;
                    let mut v = vec![0u8; n];
                    if n > 0 {
                        v[0] = 1;
                    }
                    self.put("option value", sqe.addr3() as usize, &v, name);
                    wrote = v;
                    res = n as i32;
                }
                Outcome::Err(e) | Outcome::Interrupt(e) => res = -e,
            },
            OpClass::SockoptSet => match self.draw_outcome(fd, 0, false) {
                Outcome::Ok(_) => {
                    if let Some(d) = self.get("option value", sqe.addr3() as usize, sqe.file_index() as usize, name) {
                        self.records[kid as usize].taken = d;
                    }
                    res = 0;
                }
                Outcome::Err(e) | Outcome::Interrupt(e) => res = -e,
            },
            OpClass::Sockname => match self.draw_outcome(fd, 0, false) {
                Outcome::Ok(_) => {
                    let a = Self::sockaddr_in(kid);
                    if self.put("socket address", sqe.addr() as usize, &a, name)
                        && self.put("address length", sqe.addr3() as usize, &16u32.to_ne_bytes(), name)
                    {
                        self.records[kid as usize].addr_written = a;
                    }
                    res = 0;
                }
                Outcome::Err(e) | Outcome::Interrupt(e) => res = -e,
            },
            OpClass::AddrIn => match self.draw_outcome(fd, 0, false) {
                Outcome::Ok(_) => {
                    if let Some(a) = self.get("address", sqe.addr() as usize, sqe.off() as usize, name) {
                        self.records[kid as usize].addr_written = a;
                    }
                    res = 0;
                }
                Outcome::Err(e) | Outcome::Interrupt(e) => res = -e,
            },
            OpClass::Simple => match self.draw_outcome(fd, 0, false) {
                Outcome::Ok(_) => res = 0,
                Outcome::Err(e) | Outcome::Interrupt(e) => res = -e,
            },
            OpClass::Count => match self.draw_outcome(fd, sqe.len() as usize, true) {
                Outcome::Ok(n) => res = n as i32,
                Outcome::Err(e) | Outcome::Interrupt(e) => res = -e,
            },
            OpClass::Poll => {
                res = libc::EPOLLIN;
                if rec.multishot {
                    last = force_final || tape::chance(site::KSTEP, 1, 6);
                }
            }
            OpClass::Close | OpClass::Cancel | OpClass::MsgRing => return,
        }

        if res < 0 {
            last = true;
        }
        // Zero-copy sends complete in two steps.
        let mut notif_follows = false;
        if rec.zc {
            notif_follows = res >= 0 || tape::choose(site::KSTEP, 2) == 1;
            if notif_follows {
                flags |= CQE_F_MORE;
                stats::inc(C::probe_zc_two_step);
            }
        } else if !last {
            flags |= CQE_F_MORE;
        }
        ev!(
            "k complete k{kid} {name} res={} flags={:#x}{}",
            if res < 0 { errno_name(-res).to_string() } else { res.to_string() },
            flags & 0xffff,
            if flags & CQE_F_BUFFER != 0 { format!(" buf#{}", flags >> 16) } else { String::new() }
        );
        trace(&[
            tag::COMPLETE,
            u32::from(rec.opcode),
            if res < 0 { res.unsigned_abs() } else { 0 },
            flags & 0xf,
        ]);
        {
            let rec = &mut self.records[kid as usize];
            rec.cqes.push((res, flags));
            rec.wrote.push(wrote);
        }
        if notif_follows {
            self.rings[r].inflight_set_notif(kid);
            self.post(r, Cqe { user_data: ud, res, flags });
            if tape::chance(site::KSTEP, self.cfg.p_zc_notif_same_batch, 100) {
                self.finish_with(r, kid, 0);
            }
            return;
        }
        if last {
            if let Some(inf) = self.rings[r].inflight_take(kid) {
                for p in inf.pins {
                    alloc::unpin(p);
                }
            }
            self.records[kid as usize].done = true;
            stats::inc(C::total_ops_completed);
        } else {
            self.rings[r].inflight_more(kid);
        }
        self.post(r, Cqe { user_data: ud, res, flags });
    }

    /// The kernel is asynchronous: called at yield points inside a10.
    pub fn act_at_yield(&mut self) {
        if self.cfg.p_yield_act == 0 {
            return;
        }
        if !tape::chance(site::YIELDK, self.cfg.p_yield_act, 1000) {
            return;
        }
        stats::inc(C::fault_kernel_at_yield);
        crate::report::nontrivial();
        trace(&[tag::KYIELD]);
        for r in 0..self.rings.len() {
            if self.rings[r].fd_closed || self.rings[r].sq_mem.dead {
                continue;
            }
            if self.rings[r].sqpoll() && self.rings[r].enabled {
                if self.rings[r].sq_awake {
                    self.consume(r, u32::MAX);
                    if self.cfg.sqpoll_sleepy && tape::chance(site::YIELDK, 1, 3) {
                        stats::inc(C::fault_sqpoll_sleep);
                        self.rings[r].sq_awake = false;
                        self.rings[r].set_sq_flag(SQ_NEED_WAKEUP, true);
                    }
                }
            }
            if !self.completable(r).is_empty() && tape::chance(site::YIELDK, 1, 2) {
                self.complete_some(r);
            }
            if self.cfg.noise && tape::chance(site::YIELDK, 1, 8) {
                self.post_noise(r);
            }
        }
    }
}
