#!/usr/bin/env python3
"""Regenerates the seeded-changes table in DESIGN.md from /verif/seeded/*/meta.json."""
import json, glob, os, re
rows=[]
for m in sorted(glob.glob('/verif/seeded/*/meta.json')):
    d=json.load(open(m)); sid=os.path.basename(os.path.dirname(m))
    rows.append(f"| {sid} | {d['property']} | {d['change']} | {d['needs']} | {d['detected_by']} |")
table="## 11b. Seeded changes and the checks that catch them\n\n| id | property | change | needs, to manifest | caught by (first class reported) |\n|---|---|---|---|---|\n"+"\n".join(rows)+"\n"
s=open('/verif/DESIGN.md').read()
s=re.sub(r'<!-- SEEDED-TABLE-BEGIN -->.*?<!-- SEEDED-TABLE-END -->', '<!-- SEEDED-TABLE-BEGIN -->\n'+table+'<!-- SEEDED-TABLE-END -->', s, flags=re.S)
open('/verif/DESIGN.md','w').write(s)
print(len(rows),"seeded changes")
